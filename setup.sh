#!/bin/bash
# MANIFEST.setup_cmd: offline release build of the harness from files on disk only.
set -eu
cd "$(dirname "$0")/harness"
export CARGO_NET_OFFLINE=true
cargo build --release --offline
