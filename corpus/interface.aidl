package com.bwa.aidl_test;

import com.bwa.aidl_test.MyEnum;
import com.bwa.aidl_test.MyParcelable;

/** Doc */
@Ann(a=1) oneway interface MyInterface {
    const int MY_CONST = 12;
    /**
     * Be polite
     * @param e the enum
     */
    void hello(in MyEnum e, inout MyParcelable[] p, out List<String> l, Map<String, IBinder> m) = 3;
    String servus(MyEnum e, MyWrong);
}
