package com.bwa.aidl_test;
@Backing(type="byte") enum MyEnum { VALUE1 = 1, VALUE2 = 2, }
