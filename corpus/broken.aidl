package a; interface I { void f( ; int ; } x
