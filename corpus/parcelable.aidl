package com.bwa.aidl_test;
parcelable MyParcelable {
    String name;
    byte[] data = {1 2, 3,};
    @nullable List<android.os.ParcelFileDescriptor> fds;
    const String X = "x";
}
