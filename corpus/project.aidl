package p; import p.Foo; parcelable Fw; interface I { void f(in Foo a, Fw b, in List<p.Foo> c); }
//====
package p; parcelable Foo { int x; }
