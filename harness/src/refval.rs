//! Reference validator. Works on a parse-stage tree (`TypeKind::Unresolved` for custom
//! names) plus the key -> kinds map of the project, and computes - from the rules in
//! the property statements C05..C10, not from the library - the kind of every type
//! node, the oneway flags after propagation and the complete expected multiset of
//! validation diagnostics.

use aidl_parser::ast;
use aidl_parser::ast::{AndroidTypeKind as AK, ResolvedItemKind as RK, TypeKind as TK};
use aidl_parser::diagnostic::DiagnosticKind as DK;
use std::collections::{BTreeMap, BTreeSet};

use crate::render::is_loose;

#[derive(Clone, Copy, Debug, PartialEq, Eq, PartialOrd, Ord, Hash)]
pub enum Class {
    UnknownType,
    ImportDup,
    ImportUnresolved,
    ImportUnused,
    DeclConflict,
    DeclDup,
    DeclUnused,
    DeclUsage,
    ArrayElem,
    MultiDim,
    ListElem,
    MapKey,
    MapValue,
    RawList,
    RawMap,
    OnewayRedundant,
    OnewayReturn,
    ArgDirection,
    ArgOneway,
    MethodDupName,
    MethodDupCode,
    MethodMixed,
}

#[derive(Clone, Debug, PartialEq)]
pub enum Related {
    Exact(Vec<ast::Range>),
    /// exactly one related range, any of these
    OneOf(Vec<ast::Range>),
    Ignore,
}

#[derive(Clone, Debug, PartialEq)]
pub enum Subst {
    /// take the range from the actual tree: full range of declared_parcelables[i]
    DeclFull(usize),
    /// transact_code_range of item.elements[i]
    MethodCode(usize),
}

#[derive(Clone, Debug)]
pub struct ExpDiag {
    pub class: Class,
    pub kind: DK,
    pub range: ast::Range,
    pub subst: Option<Subst>,
    pub related: Related,
    /// word the message must contain (lower-case), when the class cannot be told apart
    /// from another one by kind + range + related ranges
    pub word: Option<&'static str>,
}

#[derive(Clone, Debug)]
pub struct RefOut {
    /// validated tree: kinds resolved, oneway propagated
    pub tree: ast::Aidl,
    pub diags: Vec<ExpDiag>,
    /// keys some type resolved to
    pub resolved: BTreeSet<String>,
    /// resolution route per type node path (for classification)
    pub routes: Vec<(String, Route, usize)>,
}

#[derive(Clone, Copy, Debug, PartialEq, Eq, PartialOrd, Ord, Hash)]
pub enum Route {
    NotCustom,
    QualifiedBuiltin,
    ImportDefined,
    ImportBuiltin,
    ImportUnknown,
    ForwardDecl,
    BuiltinName,
    Unresolved,
}

pub type Keys = BTreeMap<String, BTreeSet<u8>>; // key -> set of kind codes (0 interface, 1 parcelable, 2 enum)

pub fn kind_code(k: &RK) -> u8 {
    match k {
        RK::Interface => 0,
        RK::Parcelable => 1,
        RK::Enum => 2,
        RK::ForwardDeclaredParcelable => 3,
        RK::UnknownImport => 4,
    }
}

fn code_kind(c: u8) -> RK {
    match c {
        0 => RK::Interface,
        1 => RK::Parcelable,
        _ => RK::Enum,
    }
}

pub fn item_kind_code(item: &ast::Item) -> u8 {
    match item {
        ast::Item::Interface(_) => 0,
        ast::Item::Parcelable(_) => 1,
        ast::Item::Enum(_) => 2,
    }
}

pub fn keys_of<'a>(trees: impl Iterator<Item = &'a ast::Aidl>) -> Keys {
    let mut k = Keys::new();
    for t in trees {
        let name = match &t.item {
            ast::Item::Interface(i) => &i.name,
            ast::Item::Parcelable(p) => &p.name,
            ast::Item::Enum(e) => &e.name,
        };
        k.entry(format!("{}.{}", t.package.name, name))
            .or_default()
            .insert(item_kind_code(&t.item));
    }
    k
}

const BUILTINS: &[(&str, &str, AK)] = &[
    ("IBinder", "android.os.IBinder", AK::IBinder),
    ("FileDescriptor", "java.os.FileDescriptor", AK::FileDescriptor),
    (
        "ParcelFileDescriptor",
        "android.os.ParcelFileDescriptor",
        AK::ParcelFileDescriptor,
    ),
    (
        "ParcelableHolder",
        "android.os.ParcelableHolder",
        AK::ParcelableHolder,
    ),
];

fn builtin_by_name(n: &str) -> Option<AK> {
    BUILTINS.iter().find(|b| b.0 == n).map(|b| b.2.clone())
}
fn builtin_by_qname(n: &str) -> Option<AK> {
    BUILTINS.iter().find(|b| b.1 == n).map(|b| b.2.clone())
}
fn builtin_qname(k: &AK) -> &'static str {
    BUILTINS.iter().find(|b| &b.2 == k).unwrap().1
}

fn import_qname(i: &ast::Import) -> String {
    if i.path.is_empty() {
        i.name.clone()
    } else {
        format!("{}.{}", i.path, i.name)
    }
}

#[derive(Clone, Copy, Debug, PartialEq, Eq, PartialOrd, Ord, Hash)]
pub enum Cat {
    Primitive,
    Void,
    Array,
    List,
    Map,
    Str,
    CharSeq,
    IBinder,
    FileDescriptor,
    Pfd,
    ParcelableHolder,
    Interface,
    Parcelable,
    Enum,
    Fwd,
    UnknownImport,
    Unresolved,
}

pub fn cat_of(k: &TK) -> Cat {
    match k {
        TK::Primitive => Cat::Primitive,
        TK::Void => Cat::Void,
        TK::Array => Cat::Array,
        TK::Map => Cat::Map,
        TK::List => Cat::List,
        TK::String => Cat::Str,
        TK::CharSequence => Cat::CharSeq,
        TK::AndroidType(AK::IBinder) => Cat::IBinder,
        TK::AndroidType(AK::FileDescriptor) => Cat::FileDescriptor,
        TK::AndroidType(AK::ParcelFileDescriptor) => Cat::Pfd,
        TK::AndroidType(AK::ParcelableHolder) => Cat::ParcelableHolder,
        TK::ResolvedItem(_, RK::Interface) => Cat::Interface,
        TK::ResolvedItem(_, RK::Parcelable) => Cat::Parcelable,
        TK::ResolvedItem(_, RK::Enum) => Cat::Enum,
        TK::ResolvedItem(_, RK::ForwardDeclaredParcelable) => Cat::Fwd,
        TK::ResolvedItem(_, RK::UnknownImport) => Cat::UnknownImport,
        TK::Unresolved => Cat::Unresolved,
    }
}

struct Ctx<'a> {
    imports: Vec<String>,
    decls: Vec<String>,
    keys: &'a Keys,
    diags: Vec<ExpDiag>,
    resolved: BTreeSet<String>,
    routes: Vec<(String, Route, usize)>,
}

fn err(class: Class, range: &ast::Range) -> ExpDiag {
    ExpDiag {
        class,
        kind: DK::Error,
        range: range.clone(),
        subst: None,
        related: Related::Exact(vec![]),
        word: None,
    }
}

fn warn(class: Class, range: &ast::Range) -> ExpDiag {
    ExpDiag {
        kind: DK::Warning,
        ..err(class, range)
    }
}

impl<'a> Ctx<'a> {
    fn resolve(&mut self, t: &mut ast::Type, path: &str, depth: usize) -> Result<(), String> {
        if t.kind == TK::Unresolved {
            let route = self.resolve_custom(t)?;
            self.routes.push((path.to_owned(), route, depth));
        } else {
            self.routes.push((path.to_owned(), Route::NotCustom, depth));
        }
        match &t.kind {
            TK::ResolvedItem(k, _) => {
                self.resolved.insert(k.clone());
            }
            TK::String => {
                self.resolved.insert("java.lang.String".into());
            }
            TK::CharSequence => {
                self.resolved.insert("java.lang.CharSequence".into());
            }
            TK::AndroidType(a) => {
                self.resolved.insert(builtin_qname(a).to_owned());
            }
            _ => {}
        }
        for (i, g) in t.generic_types.iter_mut().enumerate() {
            self.resolve(g, &format!("{path}.generic_types[{i}]"), depth + 1)?;
        }
        Ok(())
    }

    fn resolve_custom(&mut self, t: &mut ast::Type) -> Result<Route, String> {
        let name = t.name.clone();
        // (1) the fully qualified built-in that may be written qualified
        if name == "android.os.ParcelFileDescriptor" {
            t.kind = TK::AndroidType(AK::ParcelFileDescriptor);
            return Ok(Route::QualifiedBuiltin);
        }
        // (2) imports: equal to the name or ending in "." + name
        let suffix = format!(".{name}");
        let matching: BTreeSet<&String> = self
            .imports
            .iter()
            .filter(|i| **i == name || i.ends_with(&suffix))
            .collect();
        if matching.len() > 1 {
            return Err("dont-care: several imports match one reference".into());
        }
        if let Some(path) = matching.into_iter().next() {
            let path = path.clone();
            let builtin = builtin_by_qname(&path);
            if let Some(kinds) = self.keys.get(&path) {
                if builtin.is_some() {
                    return Err("dont-care: project file registered under a built-in's qualified name".into());
                }
                if kinds.len() > 1 {
                    return Err("dont-care: key registered with several kinds".into());
                }
                let k = code_kind(*kinds.iter().next().unwrap());
                t.kind = TK::ResolvedItem(path, k);
                return Ok(Route::ImportDefined);
            }
            if let Some(b) = builtin {
                let simple = BUILTINS.iter().find(|x| x.2 == b).unwrap().0;
                if name != simple && name != path {
                    return Err("dont-care: partial qualification of a built-in import".into());
                }
                t.kind = TK::AndroidType(b);
                return Ok(Route::ImportBuiltin);
            }
            t.kind = TK::ResolvedItem(path, RK::UnknownImport);
            return Ok(Route::ImportUnknown);
        }
        // (3) unqualified forward declaration of the same name
        if !name.contains('.') && self.decls.iter().any(|d| *d == name) {
            t.kind = TK::ResolvedItem(name, RK::ForwardDeclaredParcelable);
            return Ok(Route::ForwardDecl);
        }
        // (4) built-in simple name
        if let Some(b) = builtin_by_name(&name) {
            t.kind = TK::AndroidType(b);
            return Ok(Route::BuiltinName);
        }
        // (5) unknown
        self.diags.push(ExpDiag {
            word: Some("unknown type"),
            ..err(Class::UnknownType, &t.symbol_range)
        });
        Ok(Route::Unresolved)
    }

    fn containers(&mut self, t: &ast::Type) {
        match t.kind {
            TK::Array => {
                if let Some(e) = t.generic_types.first() {
                    let c = cat_of(&e.kind);
                    if c == Cat::Array {
                        self.diags.push(ExpDiag {
                            word: Some("multi-dimensional"),
                            ..err(Class::MultiDim, &e.symbol_range)
                        });
                    } else {
                        let ok = matches!(
                            c,
                            Cat::Primitive
                                | Cat::Str
                                | Cat::Enum
                                | Cat::Parcelable
                                | Cat::Fwd
                                | Cat::UnknownImport
                                | Cat::IBinder
                                | Cat::FileDescriptor
                                | Cat::Pfd
                                | Cat::Unresolved
                        );
                        if !ok {
                            self.diags.push(err(Class::ArrayElem, &e.symbol_range));
                        }
                    }
                }
            }
            TK::List => {
                if t.generic_types.is_empty() {
                    self.diags.push(warn(Class::RawList, &t.symbol_range));
                } else {
                    let e = &t.generic_types[0];
                    let ok = matches!(
                        cat_of(&e.kind),
                        Cat::Str
                            | Cat::Parcelable
                            | Cat::Fwd
                            | Cat::UnknownImport
                            | Cat::IBinder
                            | Cat::Pfd
                            | Cat::Unresolved
                    );
                    if !ok {
                        self.diags.push(err(Class::ListElem, &e.symbol_range));
                    }
                }
            }
            TK::Map => {
                if t.generic_types.is_empty() {
                    self.diags.push(warn(Class::RawMap, &t.symbol_range));
                } else if t.generic_types.len() == 2 {
                    let k = &t.generic_types[0];
                    let v = &t.generic_types[1];
                    if cat_of(&k.kind) != Cat::Str {
                        self.diags.push(err(Class::MapKey, &k.symbol_range));
                    }
                    if matches!(cat_of(&v.kind), Cat::Primitive | Cat::Void | Cat::Enum) {
                        self.diags.push(err(Class::MapValue, &v.symbol_range));
                    }
                }
            }
            _ => {}
        }
        for g in &t.generic_types {
            self.containers(g);
        }
    }
}

/// Number of direction Errors the type rule prescribes (0 or 1)
pub fn direction_rule_violated(cat: Cat, dir: &ast::Direction) -> bool {
    let d = match dir {
        ast::Direction::Unspecified => 0,
        ast::Direction::In(_) => 1,
        ast::Direction::Out(_) => 2,
        ast::Direction::InOut(_) => 3,
    };
    match cat {
        Cat::Array | Cat::List | Cat::Map | Cat::Parcelable | Cat::Fwd => d == 0,
        Cat::Primitive
        | Cat::Void
        | Cat::Str
        | Cat::CharSeq
        | Cat::Interface
        | Cat::Enum
        | Cat::IBinder
        | Cat::FileDescriptor
        | Cat::UnknownImport => d == 2 || d == 3,
        Cat::Pfd => !(d == 1 || d == 3),
        Cat::ParcelableHolder => true,
        Cat::Unresolved => false,
    }
}

/// A method that spells `= <digits>` but has no code in the tree (the digits do not fit u32)
pub fn has_unparsable_code(m: &ast::Method) -> bool {
    m.transact_code.is_none() && !is_loose(&m.transact_code_range) && m.transact_code_range.start.offset < m.transact_code_range.end.offset
}

pub fn tree_has_unparsable_code(t: &ast::Aidl) -> bool {
    match &t.item {
        ast::Item::Interface(i) => i.elements.iter().any(|e| matches!(e, ast::InterfaceElement::Method(m) if has_unparsable_code(m))),
        _ => false,
    }
}

pub fn validate_ref(parse_tree: &ast::Aidl, keys: &Keys) -> Result<RefOut, String> {
    validate_ref_opt(parse_tree, keys, false)
}

/// `unparsable_code_counts_as_code`: whether a method with an overflowing transact code takes
/// part in the "mixed" bookkeeping as a method WITH a code (the statement does not say)
pub fn validate_ref_opt(parse_tree: &ast::Aidl, keys: &Keys, unparsable_code_counts_as_code: bool) -> Result<RefOut, String> {
    let mut tree = parse_tree.clone();
    let imports: Vec<String> = tree.imports.iter().map(import_qname).collect();
    let decls: Vec<String> = tree.declared_parcelables.iter().map(import_qname).collect();
    for d in &decls {
        if builtin_by_qname(d).is_some() || d == "java.lang.String" || d == "java.lang.CharSequence" {
            return Err("dont-care: forward declaration of a built-in's qualified name".into());
        }
    }
    let mut cx = Ctx {
        imports: imports.clone(),
        decls: decls.clone(),
        keys,
        diags: Vec::new(),
        resolved: BTreeSet::new(),
        routes: Vec::new(),
    };

    // --- resolution of every type at every depth
    match &mut tree.item {
        ast::Item::Interface(i) => {
            for (k, el) in i.elements.iter_mut().enumerate() {
                let p = format!("item.elements[{k}]");
                match el {
                    ast::InterfaceElement::Method(m) => {
                        cx.resolve(&mut m.return_type, &format!("{p}.return_type"), 0)?;
                        for (j, a) in m.args.iter_mut().enumerate() {
                            cx.resolve(&mut a.arg_type, &format!("{p}.args[{j}].type"), 0)?;
                        }
                    }
                    ast::InterfaceElement::Const(c) => cx.resolve(&mut c.const_type, &format!("{p}.type"), 0)?,
                }
            }
        }
        ast::Item::Parcelable(pc) => {
            for (k, el) in pc.elements.iter_mut().enumerate() {
                let p = format!("item.elements[{k}]");
                match el {
                    ast::ParcelableElement::Field(f) => cx.resolve(&mut f.field_type, &format!("{p}.type"), 0)?,
                    ast::ParcelableElement::Const(c) => cx.resolve(&mut c.const_type, &format!("{p}.type"), 0)?,
                }
            }
        }
        ast::Item::Enum(_) => {}
    }

    // --- imports
    let mut first_import: BTreeMap<String, usize> = BTreeMap::new();
    for (i, q) in imports.iter().enumerate() {
        if let Some(first) = first_import.get(q) {
            cx.diags.push(ExpDiag {
                related: Related::Exact(vec![tree.imports[*first].symbol_range.clone()]),
                ..err(Class::ImportDup, &tree.imports[i].symbol_range)
            });
        } else {
            first_import.insert(q.clone(), i);
        }
    }
    for (q, i) in &first_import {
        let r = &tree.imports[*i].symbol_range;
        if !keys.contains_key(q) && builtin_by_qname(q).is_none() {
            cx.diags.push(ExpDiag {
                word: Some("unresolved"),
                ..warn(Class::ImportUnresolved, r)
            });
        } else if !cx.resolved.contains(q) {
            cx.diags.push(ExpDiag {
                word: Some("unused"),
                ..warn(Class::ImportUnused, r)
            });
        }
    }

    // --- forward declarations
    let mut first_decl: BTreeMap<String, usize> = BTreeMap::new();
    for (i, q) in decls.iter().enumerate() {
        let d = &tree.declared_parcelables[i];
        let conflicting: Vec<ast::Range> = first_import
            .values()
            .filter(|k| tree.imports[**k].name == d.name)
            .map(|k| tree.imports[*k].symbol_range.clone())
            .collect();
        if !conflicting.is_empty() {
            cx.diags.push(ExpDiag {
                related: Related::OneOf(conflicting),
                ..err(Class::DeclConflict, &d.symbol_range)
            });
            continue;
        }
        if let Some(first) = first_decl.get(q) {
            cx.diags.push(ExpDiag {
                related: Related::Exact(vec![tree.declared_parcelables[*first].symbol_range.clone()]),
                ..err(Class::DeclDup, &d.symbol_range)
            });
        } else {
            first_decl.insert(q.clone(), i);
        }
    }
    for (q, i) in &first_decl {
        let d = &tree.declared_parcelables[*i];
        let used = cx.resolved.contains(q);
        if used {
            cx.diags.push(ExpDiag {
                subst: Some(Subst::DeclFull(*i)),
                ..warn(Class::DeclUsage, &d.full_range)
            });
        } else {
            cx.diags.push(ExpDiag {
                word: Some("unused"),
                ..warn(Class::DeclUnused, &d.symbol_range)
            });
        }
    }

    // --- containers
    {
        let tree_ro = tree.clone();
        let mut each = |t: &ast::Type| cx.containers(t);
        match &tree_ro.item {
            ast::Item::Interface(i) => {
                for el in &i.elements {
                    match el {
                        ast::InterfaceElement::Method(m) => {
                            each(&m.return_type);
                            for a in &m.args {
                                each(&a.arg_type);
                            }
                        }
                        ast::InterfaceElement::Const(c) => each(&c.const_type),
                    }
                }
            }
            ast::Item::Parcelable(p) => {
                for el in &p.elements {
                    match el {
                        ast::ParcelableElement::Field(f) => each(&f.field_type),
                        ast::ParcelableElement::Const(c) => each(&c.const_type),
                    }
                }
            }
            ast::Item::Enum(_) => {}
        }
    }

    // --- oneway propagation, method rules
    if let ast::Item::Interface(i) = &mut tree.item {
        let iface_oneway = i.oneway;
        let iface_range = i.symbol_range.clone();
        let mut seen_names: BTreeMap<String, ast::Range> = BTreeMap::new();
        let mut seen_codes: BTreeMap<u32, (ast::Range, usize)> = BTreeMap::new();
        let mut first_with: Option<usize> = None;
        let mut first_without: Option<usize> = None;
        let mut mixed_reported = false;
        for (k, el) in i.elements.iter_mut().enumerate() {
            let m = match el {
                ast::InterfaceElement::Method(m) => m,
                _ => continue,
            };
            if iface_oneway {
                if m.oneway {
                    cx.diags.push(ExpDiag {
                        related: Related::Exact(vec![iface_range.clone()]),
                        ..warn(Class::OnewayRedundant, &m.oneway_range)
                    });
                }
                m.oneway = true;
            }
            if m.oneway && m.return_type.kind != TK::Void {
                cx.diags.push(err(Class::OnewayReturn, &m.return_type.symbol_range));
            }
            for a in &m.args {
                let range = match &a.direction {
                    ast::Direction::In(r) | ast::Direction::Out(r) | ast::Direction::InOut(r) => r.clone(),
                    ast::Direction::Unspecified => ast::Range {
                        start: a.arg_type.full_range.start.clone(),
                        end: a.arg_type.full_range.start.clone(),
                    },
                };
                if direction_rule_violated(cat_of(&a.arg_type.kind), &a.direction) {
                    cx.diags.push(err(Class::ArgDirection, &range));
                }
                if m.oneway && matches!(a.direction, ast::Direction::Out(_) | ast::Direction::InOut(_)) {
                    cx.diags.push(err(Class::ArgOneway, &range));
                }
            }
            // names and codes
            if let Some(first) = seen_names.get(&m.name) {
                cx.diags.push(ExpDiag {
                    related: Related::Exact(vec![first.clone()]),
                    ..err(Class::MethodDupName, &m.symbol_range)
                });
                continue;
            }
            seen_names.insert(m.name.clone(), m.symbol_range.clone());
            let has = m.transact_code.is_some() || (unparsable_code_counts_as_code && has_unparsable_code(m));
            let differs = if has {
                first_without.is_some()
            } else {
                first_with.is_some()
            };
            if differs && !mixed_reported {
                mixed_reported = true;
                cx.diags.push(ExpDiag {
                    subst: if is_loose(&m.transact_code_range) || !has {
                        Some(Subst::MethodCode(k))
                    } else {
                        None
                    },
                    related: Related::Ignore,
                    word: Some("mixed"),
                    ..err(Class::MethodMixed, &m.transact_code_range)
                });
            }
            if has {
                first_with.get_or_insert(k);
            } else {
                first_without.get_or_insert(k);
            }
            if let Some(code) = m.transact_code {
                if let Some((prev, _)) = seen_codes.get(&code) {
                    cx.diags.push(ExpDiag {
                        related: Related::Exact(vec![prev.clone()]),
                        ..err(Class::MethodDupCode, &m.transact_code_range)
                    });
                } else {
                    seen_codes.insert(code, (m.transact_code_range.clone(), k));
                }
            }
        }
    }

    Ok(RefOut {
        tree,
        diags: cx.diags,
        resolved: cx.resolved,
        routes: cx.routes,
    })
}
