//! Reference lexer: hand-written maximal-munch lexer for the token specification in
//! the `match` block of src/aidl.lalrpop. Does not use the regex crate.
//!
//! Specification: skip Unicode White_Space, `//...` line comments (including the run
//! of CR/LF that follows), `/* ... */` comments. Longest match wins; ties are broken
//! by block priority: keyword literals > RESERVED_KEYWORD > IDENT / INTEGER > FLOAT.
//! FLOAT is `[+-]?(\d*\.)?\d+f?` with Unicode decimal digits.

use crate::tok::{classify_word, K};

#[derive(Clone, Debug, Default)]
pub struct Lexed {
    /// (kind, byte start, byte end)
    pub toks: Vec<(K, usize, usize)>,
    /// offset of the first unlexable character (after trivia), if any
    pub error: Option<usize>,
    /// text contains a non-ASCII numeric character outside the fixed digit list:
    /// whether the generated lexer treats it as `\d` is not decided here
    pub undecided: bool,
    /// offset just after the last skipped trivia (== text.len() when lexing succeeded)
    pub end: usize,
}

/// Start code points of the Unicode Nd blocks (10 consecutive digits each) this
/// reference knows about.
const ND_BLOCKS: &[u32] = &[
    0x0660, 0x06F0, 0x07C0, 0x0966, 0x09E6, 0x0A66, 0x0AE6, 0x0B66, 0x0BE6, 0x0C66, 0x0CE6,
    0x0D66, 0x0E50, 0x0ED0, 0x0F20, 0x1040, 0xFF10,
];

pub fn is_known_digit(c: char) -> bool {
    if c.is_ascii_digit() {
        return true;
    }
    let u = c as u32;
    ND_BLOCKS.iter().any(|b| u >= *b && u < *b + 10)
}

fn is_undecided_char(c: char) -> bool {
    !c.is_ascii() && c.is_numeric() && !is_known_digit(c)
}

fn char_at(text: &str, pos: usize) -> Option<char> {
    text[pos..].chars().next()
}

/// Skip one piece of trivia at `pos`; returns the new position or None if there is
/// no trivia at `pos`.
fn skip_trivia_piece(text: &str, pos: usize) -> Option<usize> {
    let c = char_at(text, pos)?;
    if c.is_whitespace() {
        let mut p = pos;
        while let Some(c) = char_at(text, p) {
            if c.is_whitespace() {
                p += c.len_utf8();
            } else {
                break;
            }
        }
        return Some(p);
    }
    if c == '/' {
        let rest = &text[pos + 1..];
        if rest.starts_with('/') {
            // line comment: up to CR/LF, then the whole run of CR/LF
            let mut p = pos + 2;
            while let Some(c) = char_at(text, p) {
                if c == '\n' || c == '\r' {
                    break;
                }
                p += c.len_utf8();
            }
            while let Some(c) = char_at(text, p) {
                if c == '\n' || c == '\r' {
                    p += 1;
                } else {
                    break;
                }
            }
            return Some(p);
        }
        if rest.starts_with('*') {
            // block comment: first "*/" after the opener
            if let Some(i) = text[pos + 2..].find("*/") {
                return Some(pos + 2 + i + 2);
            }
            return None;
        }
    }
    None
}

fn is_word_start(c: char) -> bool {
    c.is_ascii_alphabetic() || c == '_'
}

fn is_word_char(c: char) -> bool {
    c.is_ascii_alphanumeric() || c == '_'
}

/// End of the FLOAT match starting at pos, if any
fn float_end(text: &str, pos: usize) -> Option<usize> {
    let mut i = pos;
    if let Some(c) = char_at(text, i) {
        if c == '+' || c == '-' {
            i += 1;
        }
    }
    // \d*
    let mut j = i;
    while let Some(c) = char_at(text, j) {
        if is_known_digit(c) {
            j += c.len_utf8();
        } else {
            break;
        }
    }
    let mut end = None;
    if char_at(text, j) == Some('.') {
        let mut k = j + 1;
        let k0 = k;
        while let Some(c) = char_at(text, k) {
            if is_known_digit(c) {
                k += c.len_utf8();
            } else {
                break;
            }
        }
        if k > k0 {
            end = Some(k);
        }
    }
    if end.is_none() && j > i {
        end = Some(j);
    }
    let mut end = end?;
    if char_at(text, end) == Some('f') {
        end += 1;
    }
    Some(end)
}

pub fn lex(text: &str) -> Lexed {
    let mut out = Lexed {
        undecided: text.chars().any(is_undecided_char),
        ..Default::default()
    };
    let mut pos = 0;
    loop {
        while let Some(p) = skip_trivia_piece(text, pos) {
            pos = p;
        }
        out.end = pos;
        let c = match char_at(text, pos) {
            None => return out,
            Some(c) => c,
        };
        let single = |k: K| Some((k, pos + 1));
        let m: Option<(K, usize)> = if is_word_start(c) {
            let mut p = pos;
            while let Some(c) = char_at(text, p) {
                if is_word_char(c) {
                    p += 1;
                } else {
                    break;
                }
            }
            Some((classify_word(&text[pos..p]), p))
        } else if c.is_ascii_digit() {
            let mut p = pos;
            while let Some(c) = char_at(text, p) {
                if c.is_ascii_digit() {
                    p += 1;
                } else {
                    break;
                }
            }
            match float_end(text, pos) {
                Some(fe) if fe > p => Some((K::Float, fe)),
                _ => Some((K::Integer, p)),
            }
        } else if is_known_digit(c) || c == '+' {
            float_end(text, pos).map(|e| (K::Float, e))
        } else if c == '-' {
            match float_end(text, pos) {
                Some(e) => Some((K::Float, e)),
                None => single(K::Minus),
            }
        } else if c == '.' {
            match float_end(text, pos) {
                Some(e) => Some((K::Float, e)),
                None => single(K::Dot),
            }
        } else if c == '"' {
            let mut p = pos + 1;
            let mut r = None;
            while let Some(c) = char_at(text, p) {
                if c == '"' {
                    r = Some((K::QuotedString, p + 1));
                    break;
                }
                if c == '\n' || c == '\r' {
                    break;
                }
                p += c.len_utf8();
            }
            r
        } else if c == '@' {
            match char_at(text, pos + 1) {
                Some(c2) if is_word_start(c2) => {
                    let mut p = pos + 1;
                    while let Some(c) = char_at(text, p) {
                        if is_word_char(c) {
                            p += 1;
                        } else {
                            break;
                        }
                    }
                    Some((K::Annotation, p))
                }
                _ => None,
            }
        } else {
            match c {
                ';' => single(K::Semi),
                ',' => single(K::Comma),
                '{' => single(K::LBrace),
                '}' => single(K::RBrace),
                '(' => single(K::LParen),
                ')' => single(K::RParen),
                '[' => single(K::LBracket),
                ']' => single(K::RBracket),
                '<' => single(K::Lt),
                '>' => single(K::Gt),
                '=' => single(K::Eq),
                _ => None,
            }
        };
        match m {
            Some((k, e)) => {
                out.toks.push((k, pos, e));
                pos = e;
            }
            None => {
                out.error = Some(pos);
                return out;
            }
        }
    }
}

#[cfg(test)]
mod tests {
    use super::*;

    fn kinds(s: &str) -> Vec<K> {
        let l = lex(s);
        assert!(l.error.is_none(), "{s:?} -> {:?}", l.error);
        l.toks.iter().map(|t| t.0).collect()
    }

    #[test]
    fn basics() {
        assert_eq!(kinds("interfaces in int inout2"), vec![K::Ident, K::Direction, K::Primitive, K::Ident]);
        assert_eq!(kinds("1f 1. .5 -5 - 12"), vec![K::Float, K::Integer, K::Dot, K::Float, K::Float, K::Minus, K::Integer]);
        assert_eq!(kinds("a/*x*/b//c\n\r\nd"), vec![K::Ident, K::Ident, K::Ident]);
        assert_eq!(lex("/*/").error, Some(0));
        assert_eq!(lex("a \"bc").error, Some(2));
        assert_eq!(kinds("/**/x"), vec![K::Ident]);
        assert_eq!(kinds("do double for_ For"), vec![K::Reserved, K::Primitive, K::Ident, K::Ident]);
        assert_eq!(kinds("1\u{0663}"), vec![K::Float]);
        assert_eq!(lex("+").error, Some(0));
        assert_eq!(kinds("1.2.3"), vec![K::Float, K::Float]);
    }
}
