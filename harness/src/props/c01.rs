//! C01 - totality: any UTF-8 text, no panic, one result per id, tagged with its id.

use crate::core::*;
use crate::gen::{self, GenCfg, LayoutCfg};
use crate::imp;
use crate::model::*;
use crate::mutate;
use crate::refgram::{text_verdict, TextVerdict};
use crate::render;
use crate::src::Src;
use serde_json::{json, Value};

pub struct C01;

const FAMILIES: &[&str] = &["document", "mutated", "token-soup", "char-soup", "targeted", "deep", "long", "project-file"];

fn doc_text(s: &mut Src, overflow: bool) -> (String, Vec<String>) {
    let cfg = GenCfg {
        allow_overflow_code: overflow,
        ..GenCfg::default()
    };
    let m = gen::file(s, &cfg);
    let r = render::render(&m);
    let gaps = gen::gaps(s, &LayoutCfg::default(), r.toks.len());
    let l = render::lay_out(&r.toks, &gaps);
    (l.text, r.toks.iter().map(|t| t.text.clone()).collect())
}

fn join_with_gaps(s: &mut Src, toks: &[String]) -> String {
    let cfg = LayoutCfg::default();
    let mut t = String::new();
    for tok in toks {
        t.push_str(&gen::gap(s, &cfg, false));
        t.push_str(tok);
    }
    t.push_str(&gen::gap(s, &cfg, true));
    t
}

fn deep_type(s: &mut Src, depth: usize) -> TyM {
    let mut t = match s.below(3) {
        0 => TyM::Str,
        1 => TyM::Prim("int".into()),
        _ => TyM::Custom(vec!["Foo".into()]),
    };
    for _ in 0..depth {
        t = match s.below(3) {
            0 => TyM::Array(Box::new(t)),
            1 => TyM::List(Some(Box::new(t))),
            _ => TyM::Map(Some(Box::new((TyM::Str, t)))),
        };
    }
    t
}

pub fn gen_text(s: &mut Src) -> (String, &'static str) {
    let fam = s.weighted(&[14, 14, 7, 9, 10, 2, 1, 6]);
    let text = match fam {
        0 => doc_text(s, true).0,
        1 => {
            let (_, mut toks) = doc_text(s, true);
            let (_, other) = doc_text(s, false);
            mutate::mutate_tokens(s, &mut toks, &other, false);
            join_with_gaps(s, &toks)
        }
        2 => {
            let toks = mutate::token_soup(s, 40);
            join_with_gaps(s, &toks)
        }
        3 => mutate::char_soup(s, 60),
        4 => {
            // targeted: every gap gets a doc comment with multi-byte text, or an
            // overflowing transact code with chosen trivia after '='
            let cfg = GenCfg::default();
            let mut m = gen::file(s, &cfg);
            if let ItemM::Interface(i) = &mut m.item {
                if i.members.is_empty() {
                    i.members.push(IMemberM::Method(gen::method(s, &cfg)));
                }
                for mem in i.members.iter_mut() {
                    if let IMemberM::Method(mm) = mem {
                        if s.flip() {
                            mm.code = Some((*s.pick(gen::OVERFLOW_CODES)).to_owned());
                        }
                    }
                }
            }
            let r = render::render(&m);
            let lc = LayoutCfg::default();
            let mode = s.below(3);
            let mut gaps: Vec<String> = Vec::new();
            for i in 0..=r.toks.len() {
                let after_eq = i > 0 && r.toks[i - 1].text == "=";
                let g = if after_eq {
                    match s.below(6) {
                        0 => String::new(),
                        1 => (*s.pick(gen::UNICODE_WS)).to_owned(),
                        2 => "/*\u{e9}*/".to_owned(),
                        3 => "\r\n".to_owned(),
                        4 => "   ".to_owned(),
                        _ => gen::gap(s, &lc, false),
                    }
                } else if mode == 0 {
                    let words = ["\u{e9}", "Gr\u{f6}\u{df}e", "\u{65e5}\u{672c}\u{8a9e} \u{30c6}\u{30ad}\u{30b9}\u{30c8}", "\u{1F468}\u{200D}\u{1F469}", "x"];
                    format!(" /**{}*/ ", s.pick(&words))
                } else if mode == 1 {
                    format!("{}", s.pick(gen::UNICODE_WS))
                } else {
                    gen::gap(s, &lc, i == r.toks.len())
                };
                gaps.push(g);
            }
            render::lay_out(&r.toks, &gaps).text
        }
        7 => {
            // one file of a generated project (imports, forward declarations and references over
            // a small adversarial name space: names equal to import paths, built-ins, ...)
            let pc = gen::ProjectCfg::default();
            let p = gen::project(s, &pc);
            let f = s.pick(&p.files).clone();
            let r = render::render(&f);
            let gaps = gen::gaps(s, &LayoutCfg::default(), r.toks.len());
            render::lay_out(&r.toks, &gaps).text
        }
        5 => {
            let depth = s.range(5, 64);
            let t = deep_type(s, depth);
            let m = FileM {
                package: vec!["p".into()],
                imports: vec![],
                decls: vec![],
                item: ItemM::Interface(InterfaceM {
                    annos: vec![],
                    oneway: false,
                    name: "I".into(),
                    members: vec![IMemberM::Method(MethodM {
                        annos: vec![],
                        oneway: false,
                        ret: t.clone(),
                        name: "f".into(),
                        args: vec![ArgM {
                            dir: Some(DirM::In),
                            annos: vec![],
                            ty: t,
                            name: Some("a".into()),
                        }],
                        trailing_comma: false,
                        code: None,
                    })],
                }),
            };
            let r = render::render(&m);
            let gaps = gen::gaps(s, &LayoutCfg::default(), r.toks.len());
            render::lay_out(&r.toks, &gaps).text
        }
        _ => {
            // long: up to 64 KiB (log-uniform size), either a long comment, many members
            // (on one line or on separate lines) or many lines
            let (base, _) = doc_text(s, false);
            let exp = s.range(6, 16);
            let size = (1usize << exp) - s.below(1 << (exp - 1));
            match s.below(4) {
                0 => format!("/* {} */{}", "\u{e9}x ".repeat(size / 4), base),
                1 => {
                    let n = (size / 40).min(400);
                    let mut t = String::from("package p; interface I {");
                    for i in 0..n {
                        t.push_str(&format!(" void m{i}(in List<String> a{i}) = {i};"));
                    }
                    t.push('}');
                    t
                }
                2 => {
                    let n = size / 42;
                    let mut t = String::from("package p; interface I {");
                    for i in 0..n {
                        t.push_str(&format!("\n  void m{i}(in List<String> a{i}) = {i};"));
                    }
                    t.push_str("\n}");
                    t
                }
                _ => {
                    let n = size / 8;
                    let mut t = String::from("package p;\n");
                    for _ in 0..n {
                        t.push_str("\r\n// \u{65e5}\n");
                    }
                    t.push_str("parcelable P { int x; }");
                    t
                }
            }
        }
    };
    (text, FAMILIES[fam])
}

#[derive(Clone, Debug)]
pub enum IdOp {
    Add(String, String),
    Remove(String),
}

/// op sequences (add / replace / remove / re-add) on one parser: after the sequence and after
/// each intermediate validate the key set must be exactly the ids currently in the parser
pub fn check_ops(ops: &[IdOp]) -> Result<(), String> {
    use aidl_parser::Parser;
    let mut model: std::collections::BTreeMap<String, String> = Default::default();
    let mut p: Parser<String> = Parser::new();
    for (step, op) in ops.iter().enumerate() {
        match op {
            IdOp::Add(id, t) => {
                imp::guarded(|| p.add_content(id.clone(), t)).map_err(|e| format!("step {step} add_content: {e}"))?;
                model.insert(id.clone(), t.clone());
            }
            IdOp::Remove(id) => {
                imp::guarded(|| p.remove_content(id.clone())).map_err(|e| format!("step {step} remove_content: {e}"))?;
                model.remove(id);
            }
        }
        let res = imp::guarded(|| p.validate()).map_err(|e| format!("step {step} validate: {e}"))?;
        let keys: std::collections::BTreeSet<&String> = res.keys().collect();
        let ids: std::collections::BTreeSet<&String> = model.keys().collect();
        if keys != ids {
            return Err(format!("after step {step} ({}): validate() key set {keys:?} differs from the ids in the parser {ids:?}", match op {
                IdOp::Add(id, _) => format!("add {id}"),
                IdOp::Remove(id) => format!("remove {id}"),
            }));
        }
        for (k, r) in &res {
            if &r.id != k {
                return Err(format!("result stored under id {k:?} is tagged {:?}", r.id));
            }
        }
    }
    Ok(())
}

pub fn check_files(files: &[(String, String)]) -> Result<(), String> {
    let out = imp::run_project(files)?;
    let ids: std::collections::BTreeSet<&String> = files.iter().map(|f| &f.0).collect();
    let keys: std::collections::BTreeSet<&String> = out.valid.keys().collect();
    if ids != keys {
        return Err(format!("validate() key set {keys:?} differs from the ids in the parser {ids:?}"));
    }
    for (k, r) in &out.valid {
        if &r.id != k {
            return Err(format!("result stored under id {k:?} is tagged {:?}", r.id));
        }
    }
    Ok(())
}

fn size_bucket(n: usize) -> &'static str {
    match n {
        0 => "size:0",
        1..=63 => "size:<64",
        64..=511 => "size:<512",
        512..=4095 => "size:<4K",
        4096..=16383 => "size:<16K",
        _ => "size:>=16K",
    }
}

impl C01 {
    fn check_case(&self, files: &[(String, String)], fams: &[&str], st: &mut Stats, case: impl FnOnce() -> Value) -> Result<(), Fail> {
        st.eval();
        let mut nontrivial = files.len() >= 2;
        let family = fams.last().copied().unwrap_or("regression");
        for (i, (_, t)) in files.iter().enumerate() {
            st.class(&format!("family:{}", fams.get(i).copied().unwrap_or("regression")));
            st.class(size_bucket(t.len()));
            let non_ascii = !t.is_ascii();
            st.class(if non_ascii { "non-ascii" } else { "ascii" });
            let (v, _) = text_verdict(t);
            let vs = match v {
                TextVerdict::WellFormed => "ref:well-formed",
                TextVerdict::LexError(_) => "ref:lex-error",
                TextVerdict::SyntaxErrorAt(_) => "ref:syntax-error",
                TextVerdict::UnexpectedEnd => "ref:unexpected-end",
                TextVerdict::Undecided => "ref:undecided",
            };
            st.class(vs);
            if !t.is_empty() && (non_ascii || v != TextVerdict::WellFormed) {
                nontrivial = true;
            }
        }
        st.class(&format!("files:{}", files.len()));
        if nontrivial && files.iter().any(|f| !f.1.is_empty()) {
            let mut key = Vec::new();
            for (id, t) in files {
                key.extend_from_slice(id.as_bytes());
                key.push(0);
                key.extend_from_slice(t.as_bytes());
                key.push(1);
            }
            st.nontrivial(&key);
        }
        st.sample(family, || json!({"files": files.iter().map(|f| json!({"id": f.0, "text": truncate(&f.1, 400)})).collect::<Vec<_>>()}));
        check_files(files).map_err(|e| Fail::new(e, case()))
    }
}

pub fn truncate(s: &str, n: usize) -> String {
    if s.len() <= n {
        s.to_owned()
    } else {
        let mut e = n;
        while !s.is_char_boundary(e) {
            e -= 1;
        }
        format!("{}...[{} bytes]", &s[..e], s.len())
    }
}

pub fn files_json(files: &[(String, String)]) -> Value {
    json!(files.iter().map(|f| json!({"id": f.0, "text": f.1})).collect::<Vec<_>>())
}

pub fn files_from_json(v: &Value) -> Vec<(String, String)> {
    v.as_array()
        .map(|a| {
            a.iter()
                .map(|f| (f["id"].as_str().unwrap_or("f").to_owned(), f["text"].as_str().unwrap_or("").to_owned()))
                .collect()
        })
        .unwrap_or_default()
}

impl Prop for C01 {
    fn id(&self) -> &'static str {
        "C01"
    }
    fn rule(&self) -> String {
        "cases = sets of 1-6 (id, text) pairs from eight families (files of generated multi-file projects; rendered document with random layout incl. overflowing transact codes; token-mutated document; token soup; character soup weighted to lexer-special characters, Unicode whitespace and multi-byte text; targeted injection of multi-byte doc comments / Unicode whitespace into every gap and chosen trivia after '=' of an overflowing code; generic nesting depth 5-64; long inputs up to 64 KiB). Oracle: add_content + validate return without panic, key set == id set, result.id == key; one case in four is also replayed as an add / remove / re-add history on one parser with the key set checked after every step. Non-trivial = non-empty, distinct by content, and (non-ASCII or malformed per the reference lexer+grammar or >= 2 files).".into()
    }
    fn assumptions(&self) -> Vec<String> {
        vec![
            "hangs are only detected by the 60 s per-case watchdog (reported as inconclusive, exit 2)".into(),
            "stack overflow / abort would kill the checker process; the wrapper reports that as a crash of the check, not silently".into(),
        ]
    }
    fn random_cases(&self, tier: Tier) -> u64 {
        tier.pick(60_000, 2_000_000)
    }
    fn max_bytes(&self) -> usize {
        1500
    }
    fn random(&self, _env: &Env, bytes: &[u8], st: &mut Stats) -> Result<(), Fail> {
        let mut s = Src::new(bytes);
        if s.chance(1, 200) {
            // many ids (beyond the usual 1-6): the key set must still be exact
            let n = s.range(7, 70);
            let files: Vec<(String, String)> = (0..n)
                .map(|i| {
                    let t = match s.below(4) {
                        0 => format!("package p{i}; interface I{i} {{ void f(); }}"),
                        1 => format!("package p; parcelable P{i} {{ int x; }}"),
                        2 => format!("package p; import p.P{}; enum E{i} {{ A }}", i / 2),
                        _ => "package a; interface {".to_owned(),
                    };
                    (format!("id{i}"), t)
                })
                .collect();
            st.eval();
            st.class("many-files");
            st.nontrivial(format!("many{n}").as_bytes());
            return check_files(&files).map_err(|e| Fail::new(e, bytes_case(bytes, json!({"files": files_json(&files)}))));
        }
        let nfiles = 1 + s.weighted(&[12, 3, 2, 1, 1, 1]);
        let mut files = Vec::new();
        let mut fams = Vec::new();
        for i in 0..nfiles {
            let (t, f) = gen_text(&mut s);
            fams.push(f);
            // sometimes reuse an id (replacement)
            let id = if i > 0 && s.chance(1, 10) { "f0".to_owned() } else { format!("f{i}") };
            files.push((id, t));
        }
        self.check_case(&files, &fams, st, || bytes_case(bytes, json!({"files": files_json(&files)})))?;
        // now and then: the same texts as an add / remove / re-add history on one parser
        if s.chance(1, 4) {
            let mut ops = Vec::new();
            for (id, t) in &files {
                ops.push(IdOp::Add(id.clone(), t.clone()));
            }
            let n = s.range(1, 4);
            for _ in 0..n {
                let (id, t) = s.pick(&files).clone();
                match s.below(4) {
                    0 => ops.push(IdOp::Remove(id)),
                    1 => {
                        ops.push(IdOp::Remove(id.clone()));
                        ops.push(IdOp::Add(id, t));
                    }
                    2 => ops.push(IdOp::Add(id, t)),
                    _ => ops.push(IdOp::Remove("never-added".to_owned())),
                }
            }
            st.class("history:add-remove-readd");
            check_ops(&ops).map_err(|e| Fail::new(e, bytes_case(bytes, json!({"files": files_json(&files), "ops": format!("{ops:?}")}))))?;
        }
        Ok(())
    }
    fn replay_other(&self, _env: &Env, case: &Value, st: &mut Stats) -> Result<(), Fail> {
        if case.get("kind").and_then(|k| k.as_str()) == Some("text") {
            let files = files_from_json(&case["files"]);
            return self.check_case(&files, &[], st, || case.clone());
        }
        Err(Fail::harness(format!("unknown case kind in {case}")))
    }
}
