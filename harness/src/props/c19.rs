//! C19 - serialising a tree and reading it back gives an equal tree (RON).

use crate::core::*;
use crate::gen::{GenCfg, LayoutCfg, ProjectCfg};
use crate::imp;
use crate::projcase::{self, ProjCase};
use crate::src::Src;
use aidl_parser::ast;
use serde_json::json;

pub struct C19;

#[derive(Debug, PartialEq)]
pub enum RtFail {
    /// only difference: Method.oneway true -> false
    OnewayOnly,
    Other(String),
}

fn oneway_patched(back: &ast::Aidl, orig: &ast::Aidl) -> ast::Aidl {
    let mut b = back.clone();
    if let (ast::Item::Interface(bi), ast::Item::Interface(oi)) = (&mut b.item, &orig.item) {
        for (be, oe) in bi.elements.iter_mut().zip(oi.elements.iter()) {
            if let (ast::InterfaceElement::Method(bm), ast::InterfaceElement::Method(om)) = (be, oe) {
                if om.oneway && !bm.oneway {
                    bm.oneway = true;
                }
            }
        }
    }
    b
}

pub fn roundtrip(t: &ast::Aidl) -> Result<(), RtFail> {
    for pretty in [false, true] {
        let ser = imp::guarded(|| {
            if pretty {
                ron::ser::to_string_pretty(t, ron::ser::PrettyConfig::default())
            } else {
                ron::to_string(t)
            }
        })
        .map_err(|e| RtFail::Other(format!("panic while serialising: {e}")))?
        .map_err(|e| RtFail::Other(format!("RON serialisation failed: {e}")))?;
        let back: ast::Aidl = imp::guarded(|| ron::from_str::<ast::Aidl>(&ser))
            .map_err(|e| RtFail::Other(format!("panic while deserialising: {e}")))?
            .map_err(|e| RtFail::Other(format!("RON deserialisation failed: {e}")))?;
        if &back != t {
            if &oneway_patched(&back, t) == t {
                return Err(RtFail::OnewayOnly);
            }
            return Err(RtFail::Other(format!(
                "tree differs after the round trip (pretty={pretty}): {}",
                crate::astvisit::first_diff(t, &back)
            )));
        }
    }
    // serde_json alongside, to tell a format-crate problem from a library one
    if let Ok(js) = serde_json::to_string(t) {
        if let Ok(back) = serde_json::from_str::<ast::Aidl>(&js) {
            if &back != t && &oneway_patched(&back, t) != t {
                return Err(RtFail::Other(format!("JSON round trip differs: {}", crate::astvisit::first_diff(t, &back))));
            }
        }
    }
    Ok(())
}

struct Feat {
    oneway_method: bool,
    anno_params: bool,
    doc: bool,
    resolved: bool,
}

fn features(t: &ast::Aidl) -> Feat {
    let dbg = format!("{t:?}");
    let oneway_method = match &t.item {
        ast::Item::Interface(i) => i.elements.iter().any(|e| matches!(e, ast::InterfaceElement::Method(m) if m.oneway)),
        _ => false,
    };
    Feat {
        oneway_method,
        anno_params: dbg.contains("key_values: {\""),
        doc: dbg.contains("doc: Some("),
        resolved: dbg.contains("ResolvedItem(") || dbg.contains("AndroidType("),
    }
}

impl C19 {
    fn check_tree(&self, env: &Env, t: &ast::Aidl, text: &str, st: &mut Stats) -> Result<(), String> {
        let f = features(t);
        if f.oneway_method {
            st.class("has-oneway-method");
        }
        if f.anno_params {
            st.class("has-annotation-parameters");
        }
        if f.doc {
            st.class("has-doc");
        }
        if f.resolved {
            st.class("has-resolved-kind");
        }
        if f.oneway_method || f.anno_params || f.doc || f.resolved {
            st.nontrivial(format!("{text}{:?}", f.resolved).as_bytes());
        }
        st.add("trees_round_tripped", 1);
        match roundtrip(t) {
            Ok(()) => Ok(()),
            Err(RtFail::OnewayOnly) if env.kf_open("KF-C19-1") => {
                st.kf("KF-C19-1");
                Ok(())
            }
            Err(RtFail::OnewayOnly) => Err("a oneway method comes back as not oneway after serialise + deserialise (only difference)".into()),
            Err(RtFail::Other(e)) => Err(e),
        }
    }
}

impl Prop for C19 {
    fn id(&self) -> &'static str {
        "C19"
    }
    fn rule(&self) -> String {
        "case = every tree (parse-stage and validated) of a generated project or of a stand-alone generated document with annotations / doc comments / values: ron::to_string and to_string_pretty -> ron::from_str::<ast::Aidl> -> == original (a RON error is a failure); serde_json is run alongside. Non-trivial = tree with a oneway method, an annotation with parameters, a doc, or a resolved kind; distinct by text.".into()
    }
    fn random_cases(&self, tier: Tier) -> u64 {
        tier.pick(20_000, 200_000)
    }
    fn max_bytes(&self) -> usize {
        3000
    }
    fn random(&self, env: &Env, bytes: &[u8], st: &mut Stats) -> Result<(), Fail> {
        let mut s = Src::new(bytes);
        st.eval();
        let files: Vec<(String, String)> = if s.flip() {
            let mut pc = ProjectCfg::default();
            pc.gen.annos = true;
            pc.gen.values = true;
            pc.gen.max_members = 3;
            let case: ProjCase = projcase::gen_proj(&mut s, &pc, &LayoutCfg::default())?;
            case.files()
        } else {
            let d = crate::doccase::gen_doc(&mut s, &GenCfg::default(), &LayoutCfg::default())?;
            vec![("f0".to_owned(), d.laid.text)]
        };
        let case = || bytes_case(bytes, json!({"files": super::c01::files_json(&files)}));
        let out = imp::run_project(&files).map_err(|e| Fail::new(e, case()))?;
        st.sample("project", || json!({"files": super::c01::files_json(&files)}));
        for (id, text) in &files {
            for (stage, res) in [("parse-stage", &out.parse), ("validated", &out.valid)] {
                if let Some(t) = res.get(id).and_then(|r| r.ast.as_ref()) {
                    self.check_tree(env, t, text, st).map_err(|e| Fail::new(format!("file {id} ({stage} tree): {e}"), case()))?;
                }
            }
        }
        Ok(())
    }
    fn replay_other(&self, env: &Env, case: &serde_json::Value, st: &mut Stats) -> Result<(), Fail> {
        if case.get("kind").and_then(|k| k.as_str()) == Some("text") {
            let files = super::c01::files_from_json(&case["files"]);
            st.eval();
            let out = imp::run_project(&files).map_err(|e| Fail::new(e, case.clone()))?;
            for (id, text) in &files {
                for res in [&out.parse, &out.valid] {
                    if let Some(t) = res.get(id).and_then(|r| r.ast.as_ref()) {
                        self.check_tree(env, t, text, st).map_err(|e| Fail::new(format!("file {id}: {e}"), case.clone()))?;
                    }
                }
            }
            return Ok(());
        }
        Err(Fail::harness("unknown case kind"))
    }
}
