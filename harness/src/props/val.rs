//! C05..C10: random generated projects compared with the reference validator
//! (the bounded-exhaustive enumerators live in val_enum.rs).

use crate::core::*;
use crate::gen::{GenCfg, ProjectCfg};
use crate::model::*;
use crate::projcase::{self, ProjCase};
use crate::refval::{Class, Route};
use crate::src::Src;
use crate::valcheck::{self, Which};
use serde_json::json;

pub struct ValProp {
    pub which: Which,
}

impl ValProp {
    pub fn project_cfg(&self) -> ProjectCfg {
        let mut pc = ProjectCfg::default();
        match self.which {
            Which::C05 => {}
            Which::C06 => {
                pc.many_imports = true;
                pc.gen.max_members = 3;
            }
            Which::C07 => {
                pc.gen.max_args = 5;
                pc.gen.max_depth = 2;
                pc.gen.annos = true;
                // few names: methods with a repeated name must still have their arguments checked
                pc.gen.method_names = Some(vec!["f", "g", "h", "send", "get", "a1", "m", "n", "o", "p"]);
            }
            Which::C08 => {
                pc.gen.max_depth = 4;
            }
            Which::C09 => {
                pc.gen = GenCfg {
                    allow_overflow_code: true,
                    max_members: 12,
                    max_args: 1,
                    max_depth: 1,
                    method_names: Some(vec!["m1", "m2", "m3", "m4", "m5", "m6", "get", "set", "Get", "GET", "M1", "send", "Send"]),
                    ..pc.gen
                };
                pc.max_files = 2;
            }
            Which::C10 => {
                pc.gen.max_members = 6;
                pc.gen.max_args = 2;
                pc.gen.annos = true;
                pc.gen.method_names = Some(vec!["f", "g", "h", "send", "get", "a1", "m", "n", "o", "p", "q", "r"]);
            }
        }
        pc
    }

    /// evaluate one project: all files
    pub fn check_project(&self, case: &ProjCase, st: &mut Stats) -> Result<(), String> {
        let out = case.run()?;
        let mut text_key = Vec::new();
        for d in &case.docs {
            text_key.extend_from_slice(d.laid.text.as_bytes());
            text_key.push(0);
        }
        let mut nontrivial = false;
        for i in 0..case.docs.len() {
            let fr = valcheck::check_file(case, &out, i, self.which, st)?;
            st.add("items_compared", fr.compared as u64);
            if fr.dont_care.is_some() {
                continue;
            }
            if let Ok(r) = case.reference(i) {
                nontrivial |= self.is_nontrivial(&case.project.files[i], &r);
            }
        }
        st.class(&format!("files:{}", case.docs.len()));
        if nontrivial {
            st.nontrivial(&text_key);
        }
        Ok(())
    }

    fn is_nontrivial(&self, m: &FileM, r: &crate::refval::RefOut) -> bool {
        let has = |cs: &[Class]| r.diags.iter().any(|d| cs.contains(&d.class));
        match self.which {
            Which::C05 => r
                .routes
                .iter()
                .any(|(_, route, depth)| *route != Route::NotCustom && (*depth >= 1 || !matches!(route, Route::Unresolved))),
            Which::C06 => has(&[
                Class::ImportDup,
                Class::ImportUnresolved,
                Class::ImportUnused,
                Class::DeclConflict,
                Class::DeclDup,
                Class::DeclUnused,
                Class::DeclUsage,
            ]),
            Which::C07 => {
                has(&[Class::ArgDirection, Class::ArgOneway])
                    || r.routes.iter().any(|(p, route, _)| p.contains(".args[") && matches!(route, Route::ImportDefined | Route::ImportUnknown | Route::ForwardDecl))
            }
            Which::C08 => {
                let mut deep = false;
                m.for_each_top_type(&mut |t, _| deep |= t.depth() >= 2);
                deep || has(&[Class::ArrayElem, Class::MultiDim, Class::ListElem, Class::MapKey, Class::MapValue, Class::RawList, Class::RawMap])
            }
            Which::C09 => {
                let nm = match &m.item {
                    ItemM::Interface(i) => i.members.iter().filter(|x| matches!(x, IMemberM::Method(_))).count(),
                    _ => 0,
                };
                nm >= 2 && has(&[Class::MethodDupName, Class::MethodDupCode, Class::MethodMixed])
            }
            Which::C10 => match &m.item {
                ItemM::Interface(i) => i.oneway || i.members.iter().any(|x| matches!(x, IMemberM::Method(mm) if mm.oneway)),
                _ => false,
            },
        }
    }
}

impl Prop for ValProp {
    fn id(&self) -> &'static str {
        match self.which {
            Which::C05 => "C05",
            Which::C06 => "C06",
            Which::C07 => "C07",
            Which::C08 => "C08",
            Which::C09 => "C09",
            Which::C10 => "C10",
        }
    }
    fn rule(&self) -> String {
        let common = "random part: projects of 1-6 generated files over an adversarial name space (packages p, p.q, q, other.p, android.os; names Foo, XFoo, FooX, Bar, IBinder, ParcelFileDescriptor, Baz; references written simple / partially / fully qualified / built-in / unknown; imports of defined, undefined, built-in and duplicate keys; forward declarations), every file run through add_content + validate and compared with the reference validator computed from the model alone. ";
        let specific = match self.which {
            Which::C05 => "Compared: kind of every type node at every depth, and the multiset of 'unknown type' Errors (kind, range). Non-trivial = a custom reference that is nested or resolves through an import / forward declaration / built-in.",
            Which::C06 => "Compared: multiset (kind, range, related ranges, 'unresolved'/'unused' wording) of all diagnostics sitting on an import's or forward declaration's name/full range. Non-trivial = a statement whose expected outcome is not 'nothing'.",
            Which::C07 => "Compared: multiset of Errors located on direction keywords and on the empty range at the type start of direction-less arguments. Enumerated part: 17 type categories x 4 directions x method oneway x interface oneway x argument position, through real multi-file resolution. Non-trivial = >= 1 expected Error or a category that exists only through cross-file resolution.",
            Which::C08 => "Compared: multiset of diagnostics on every container element's name range and every raw List/Map keyword ('unknown type' Errors excluded on both sides). Enumerated part: all container shapes up to depth 2 (quick: + sample of depth 3; thorough: all of depth 3) over 16 leaf categories in field / constant / return / argument position. Non-trivial = nesting depth >= 2 or >= 1 expected diagnostic.",
            Which::C09 => "Compared: multiset (kind, range, related) of diagnostics on method-name and transact-code ranges. Enumerated part: all method sequences up to length 4 (thorough 5) over 3 names x {no code, 3 codes} with constants interleaved. Non-trivial = >= 2 methods and >= 1 expected diagnostic.",
            Which::C10 => "Compared: Method.oneway of every method after validation, and the multiset of diagnostics on oneway keywords and return-type name ranges. Enumerated part: interface oneway x up to 2 (thorough 3) methods x method oneway x 17 return-type categories, constants mixed in. Non-trivial = interface or some method oneway.",
        };
        format!("{common}{specific} Distinct by rendered project text.")
    }
    fn assumptions(&self) -> Vec<String> {
        vec![
            "don't-care corners (several imports matching one reference, a key registered with several kinds, a project file under a built-in's qualified name, partial qualification of a built-in import, forward declaration of a built-in's qualified name) are discarded and counted under coverage.discards".into(),
            "diagnostics are matched by kind + range + related ranges; message wording is consulted only for the words the property statements use ('unknown type', 'unresolved', 'unused', 'multi-dimensional', 'mixed')".into(),
            "resolution priority import > forward declaration > built-in simple name is taken from the property's mechanism description".into(),
        ]
    }
    fn random_cases(&self, tier: Tier) -> u64 {
        match self.which {
            Which::C05 | Which::C06 => tier.pick(20_000, 250_000),
            _ => tier.pick(12_000, 150_000),
        }
    }
    fn max_bytes(&self) -> usize {
        3000
    }
    fn random(&self, _env: &Env, bytes: &[u8], st: &mut Stats) -> Result<(), Fail> {
        let mut s = Src::new(bytes);
        let pc = self.project_cfg();
        let lc = projcase::calm_layout();
        let case = projcase::gen_proj(&mut s, &pc, &lc)?;
        st.eval();
        st.sample("project", || case.json());
        self.check_project(&case, st).map_err(|e| Fail::new(e, bytes_case(bytes, case.json())))
    }
    fn enum_count(&self, tier: Tier) -> u64 {
        super::val_enum::count(self.which, tier)
    }
    fn enum_case(&self, env: &Env, idx: u64, st: &mut Stats) -> Result<(), Fail> {
        super::val_enum::run(self, env.tier, idx, st)
    }
    fn exhaustive(&self, _tier: Tier) -> bool {
        true
    }
    fn replay_other(&self, _env: &Env, case: &serde_json::Value, st: &mut Stats) -> Result<(), Fail> {
        if case.get("kind").and_then(|k| k.as_str()) == Some("project") {
            let p: ProjectM = serde_json::from_value(case["project"].clone()).map_err(|e| Fail::harness(format!("bad project: {e}")))?;
            let mut s = Src::new(&[]);
            let pcase = ProjCase::from_project(p, &mut s, &projcase::calm_layout())?;
            st.eval();
            return self.check_project(&pcase, st).map_err(|e| Fail::new(e, case.clone()));
        }
        Err(Fail::harness("unknown case kind"))
    }
}

pub fn project_case_json(p: &ProjectM, case: &ProjCase) -> serde_json::Value {
    let mut v = case.json();
    if let serde_json::Value::Object(m) = &mut v {
        m.insert("kind".into(), json!("project"));
        m.insert("project".into(), serde_json::to_value(p).unwrap_or(serde_json::Value::Null));
    }
    v
}
