//! C20 - syntax-error messages name every token the parser was prepared to accept.

use crate::core::*;
use crate::gen::{self, GenCfg, LayoutCfg};
use crate::imp;
use crate::mutate;
use crate::refgram::text_verdict;
use crate::render;
use crate::src::Src;
use crate::tok::{ALL_KINDS, K};
use aidl_parser::diagnostic::Diagnostic;
use aidl_parser::Parser;
use serde_json::{json, Value};

pub struct C20;

/// items named in the part of the message after the first line break
pub fn named_items(msg: &str) -> Vec<String> {
    let tail = match msg.find('\n') {
        Some(i) => &msg[i + 1..],
        None => "",
    };
    let mut out = Vec::new();
    let cs: Vec<char> = tail.chars().collect();
    let mut i = 0;
    while i < cs.len() {
        let c = cs[i];
        if c == '"' {
            // quoted literal: up to the next quote that is followed by a separator or the end
            let mut j = i + 1;
            while j < cs.len() {
                if cs[j] == '"' && j > i + 1 {
                    break;
                }
                j += 1;
            }
            let lit: String = cs[i..=j.min(cs.len() - 1)].iter().collect();
            out.push(lit);
            i = j + 1;
        } else if c.is_ascii_uppercase() {
            let mut j = i;
            while j < cs.len() && (cs[j].is_ascii_uppercase() || cs[j] == '_' || cs[j].is_ascii_digit()) {
                j += 1;
            }
            let w: String = cs[i..j].iter().collect();
            // a capitalised ordinary word (e.g. "Expected") continues with lower-case letters
            if j < cs.len() && cs[j].is_ascii_lowercase() {
                while j < cs.len() && cs[j].is_ascii_alphabetic() {
                    j += 1;
                }
            } else {
                out.push(w);
            }
            i = j;
        } else {
            i += 1;
        }
    }
    out
}

fn multiset_minus(a: &[String], b: &[String]) -> Vec<String> {
    let mut rest: Vec<String> = b.to_vec();
    let mut out = Vec::new();
    for x in a {
        if let Some(p) = rest.iter().position(|y| y == x) {
            rest.remove(p);
        } else {
            out.push(x.clone());
        }
    }
    out
}

#[derive(Debug, PartialEq)]
pub enum Verdict {
    Ok,
    /// exactly the entry at index n-2 dropped, n >= 3, nothing extra
    KnownTruncation,
    Bad(String),
}

pub fn judge(msg: &str, expected: &[String]) -> Verdict {
    let named = named_items(msg);
    let missing = multiset_minus(expected, &named);
    let extra = multiset_minus(&named, expected);
    if missing.is_empty() && extra.is_empty() {
        return Verdict::Ok;
    }
    let n = expected.len();
    if n >= 3 && extra.is_empty() && missing.len() == 1 && missing[0] == expected[n - 2] {
        // make sure it is that very entry (not an equal string elsewhere): the named list must be
        // the vector without index n-2
        let mut without = expected.to_vec();
        without.remove(n - 2);
        if multiset_minus(&without, &named).is_empty() && multiset_minus(&named, &without).is_empty() {
            return Verdict::KnownTruncation;
        }
    }
    Verdict::Bad(format!(
        "message `{}` names {:?}; the parser's expectation set is {:?}; dropped by the wording: {:?}; named but not expected: {:?}",
        msg.replace('\n', " / "),
        named,
        expected,
        missing,
        extra
    ))
}

/// run add_content alone and pair recorded expectation vectors with syntax diagnostics
pub fn error_points(text: &str) -> Result<Vec<(Diagnostic, String, Vec<String>)>, String> {
    let (diags, log) = imp::guarded(|| {
        let _ = aidl_parser::diagnostic::verif_take_expected();
        let mut p: Parser<u8> = Parser::new();
        p.add_content(0, text);
        let log = aidl_parser::diagnostic::verif_take_expected();
        (p.verif_parse_results()[&0].diagnostics.clone(), log)
    })?;
    let lx = crate::reflex::lex(text);
    let syntax: Vec<Diagnostic> = diags
        .into_iter()
        .filter(|d| {
            !lx.toks.iter().enumerate().any(|(i, t)| {
                t.0 == K::Integer
                    && t.1 == d.range.start.offset
                    && t.2 == d.range.end.offset
                    && text[t.1..t.2].parse::<u32>().is_err()
                    && i >= 2
                    && lx.toks[i - 1].0 == K::Eq
                    && lx.toks[i - 2].0 == K::RParen
            })
        })
        .collect();
    let log: Vec<_> = log.into_iter().filter(|e| e.0 != "User").collect();
    if syntax.len() != log.len() {
        return Err(format!(
            "HARNESS: cannot align {} syntax diagnostics with {} recorded expectation vectors",
            syntax.len(),
            log.len()
        ));
    }
    Ok(syntax.into_iter().zip(log).map(|(d, (v, e))| (d, v.to_owned(), e)).collect())
}

pub fn check_text(env: &Env, text: &str, st: &mut Stats) -> Result<usize, String> {
    let pts = error_points(text)?;
    let mut nontrivial = 0;
    for (d, variant, expected) in &pts {
        st.class(&format!("expectation-size:{}", expected.len().min(16)));
        st.class(&format!("variant:{variant}"));
        if expected.len() >= 3 {
            nontrivial += 1;
            let mut key = expected.join(",");
            key.push_str(variant);
            st.nontrivial(key.as_bytes());
        }
        st.add("error_points", 1);
        match judge(&d.message, expected) {
            Verdict::Ok => {}
            Verdict::KnownTruncation if env.kf_open("KF-C20-1") => st.kf("KF-C20-1"),
            Verdict::KnownTruncation => {
                return Err(format!(
                    "message `{}` drops the second-to-last entry of the expectation set {:?}",
                    d.message.replace('\n', " / "),
                    expected
                ))
            }
            Verdict::Bad(e) => return Err(e),
        }
    }
    Ok(nontrivial)
}

fn lay(toks: &[String]) -> String {
    toks.join(" ")
}

impl Prop for C20 {
    fn id(&self) -> &'static str {
        "C20"
    }
    fn rule(&self) -> String {
        "case = an error point: a proper prefix (at a token boundary) of a generated well-formed document followed by end of input or by one token of the vocabulary (enumerated over every prefix of the seed documents in the quick tier; random documents beyond), plus token-mutated documents (recovered errors). Oracle (needs the verif-hooks recorder): the expectation vectors recorded by Diagnostic::from_parse_error correspond one-to-one, in order, to the syntax diagnostics; the items named after the first line break of each message (quoted literals and upper-case token names; the words Expected / one / of / or and commas ignored) must equal the recorded vector as a multiset. Non-trivial = expectation vector with >= 3 entries; distinct by (vector, error variant).".into()
    }
    fn assumptions(&self) -> Vec<String> {
        vec!["the black-box variant (grammar-acceptable tokens) is deliberately not asserted: LALR state merging makes the generated parser's own expectation sets differ from it".into()]
    }
    fn random_cases(&self, tier: Tier) -> u64 {
        tier.pick(25_000, 800_000)
    }
    fn max_bytes(&self) -> usize {
        2000
    }
    fn enum_count(&self, tier: Tier) -> u64 {
        // prefixes of deterministic seed documents x (EOF + 34 kinds): 40 seed docs in quick, 200 thorough
        tier.pick(40, 200)
    }
    fn enum_case(&self, env: &Env, idx: u64, st: &mut Stats) -> Result<(), Fail> {
        // seed document idx: all its prefixes followed by EOF; and by every kind at a
        // third of the prefixes
        let mut seed = Vec::new();
        let mut x = 0xC20 ^ idx;
        for _ in 0..1200 {
            x = crate::src::splitmix64(x);
            seed.push((x >> 24) as u8);
        }
        let mut s = Src::new(&seed);
        let m = gen::file(&mut s, &GenCfg::default());
        let toks: Vec<String> = render::render(&m).toks.iter().map(|t| t.text.clone()).collect();
        for cut in 0..toks.len() {
            let prefix = &toks[..cut];
            let text = lay(prefix);
            st.eval();
            st.class("enumerated-prefix");
            check_text(env, &text, st).map_err(|e| fail_of(e, &text))?;
            if cut % 3 == (idx % 3) as usize {
                for k in ALL_KINDS {
                    let mut v = prefix.to_vec();
                    v.push(k.repr().to_owned());
                    // a little tail so that recovery has something to resume on
                    v.extend(toks[cut..].iter().take(4).cloned());
                    let text = lay(&v);
                    st.eval();
                    check_text(env, &text, st).map_err(|e| fail_of(e, &text))?;
                }
            }
        }
        st.sample("enumerated", || json!({"seed_document": lay(&toks)}));
        Ok(())
    }
    fn random(&self, env: &Env, bytes: &[u8], st: &mut Stats) -> Result<(), Fail> {
        let mut s = Src::new(bytes);
        let cfg = GenCfg {
            allow_overflow_code: true,
            ..GenCfg::default()
        };
        let m = gen::file(&mut s, &cfg);
        let mut toks: Vec<String> = render::render(&m).toks.iter().map(|t| t.text.clone()).collect();
        let text = match s.below(4) {
            3 => {
                // the same garbage member injected at several member positions (consecutive
                // recovered errors with the same expectation set)
                let r = render::render(&m);
                let term = if matches!(m.item, crate::model::ItemM::Enum(_)) { "," } else { ";" };
                let ng = s.below(4);
                let garbage: Vec<String> = (0..ng)
                    .map(|_| loop {
                        let t = mutate::clean_vocab_token(&mut s);
                        if t != ";" && t != "{" && t != "}" && t != "," {
                            break t;
                        }
                    })
                    .collect();
                let mut positions: Vec<usize> = r.members.iter().map(|ms| ms.first_tok).collect();
                positions.push(r.body_close);
                let reps = s.range(2, 4);
                let mut out: Vec<String> = Vec::new();
                for (i, t) in toks.iter().enumerate() {
                    if positions.contains(&i) {
                        let n = if i == r.body_close { reps } else { 1 + s.below(2) };
                        for _ in 0..n {
                            out.extend(garbage.iter().cloned());
                            out.push(term.to_owned());
                        }
                    }
                    out.push(t.clone());
                }
                out.join(if s.flip() { " " } else { "\n" })
            }
            0 => {
                let cut = s.below(toks.len());
                toks.truncate(cut);
                if s.flip() {
                    toks.push(s.pick(&ALL_KINDS).repr().to_owned());
                }
                super::c04::join(&mut s, &toks, &LayoutCfg::default())
            }
            _ => {
                let m2 = gen::file(&mut s, &cfg);
                let other: Vec<String> = render::render(&m2).toks.iter().map(|t| t.text.clone()).collect();
                let clean = s.chance(4, 5);
                mutate::mutate_tokens(&mut s, &mut toks, &other, clean);
                super::c04::join(&mut s, &toks, &LayoutCfg::default())
            }
        };
        st.eval();
        let n = check_text(env, &text, st).map_err(|e| {
            let mut f = fail_of(e, &text);
            if let Value::Object(m) = &mut f.case {
                m.insert("kind".into(), json!("bytes"));
                m.insert("hex".into(), json!(hex(bytes)));
            }
            f
        })?;
        if n > 0 {
            st.sample("random", || json!({"text": text, "reference": format!("{:?}", text_verdict(&text).0)}));
        }
        Ok(())
    }
    fn replay_other(&self, env: &Env, case: &Value, st: &mut Stats) -> Result<(), Fail> {
        if case.get("kind").and_then(|k| k.as_str()) == Some("text") {
            let text = case["text"].as_str().unwrap_or("");
            st.eval();
            return check_text(env, text, st).map(|_| ()).map_err(|e| fail_of(e, text));
        }
        Err(Fail::harness("unknown case kind"))
    }
}

fn fail_of(e: String, text: &str) -> Fail {
    if e.starts_with("HARNESS") {
        return Fail::harness(e);
    }
    Fail::new(e, json!({"kind": "text", "text": text}))
}
