pub mod c01;

use crate::core::Prop;

pub fn all() -> Vec<Box<dyn Prop>> {
    vec![Box::new(c01::C01)]
}

pub fn by_id(id: &str) -> Option<Box<dyn Prop>> {
    all().into_iter().find(|p| p.id() == id)
}
