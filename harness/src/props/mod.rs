pub mod c01;
pub mod c02;
pub mod c04;

use crate::core::Prop;

pub fn all() -> Vec<Box<dyn Prop>> {
    vec![Box::new(c01::C01), Box::new(c02::C02), Box::new(c04::C04)]
}

pub fn by_id(id: &str) -> Option<Box<dyn Prop>> {
    all().into_iter().find(|p| p.id() == id)
}
