pub mod c01;
pub mod c02;
pub mod c03;
pub mod c04;
pub mod c11;
pub mod c12;
pub mod c13;
pub mod c14;
pub mod c15;
pub mod c16;
pub mod c17;
pub mod c18;
pub mod c19;
pub mod c20;
pub mod val;
pub mod val_enum;

use crate::core::Prop;

pub fn all() -> Vec<Box<dyn Prop>> {
    vec![Box::new(c01::C01), Box::new(c02::C02), Box::new(c03::C03), Box::new(c04::C04),
        Box::new(val::ValProp { which: crate::valcheck::Which::C05 }),
        Box::new(val::ValProp { which: crate::valcheck::Which::C06 }),
        Box::new(val::ValProp { which: crate::valcheck::Which::C07 }),
        Box::new(val::ValProp { which: crate::valcheck::Which::C08 }),
        Box::new(val::ValProp { which: crate::valcheck::Which::C09 }),
        Box::new(val::ValProp { which: crate::valcheck::Which::C10 }),
        Box::new(c11::C11),
        Box::new(c12::C12),
        Box::new(c13::C13),
        Box::new(c14::C14),
        Box::new(c15::C15),
        Box::new(c16::C16),
        Box::new(c17::C17),
        Box::new(c18::C18),
        Box::new(c19::C19),
        Box::new(c20::C20),
    ]
}

pub fn by_id(id: &str) -> Option<Box<dyn Prop>> {
    all().into_iter().find(|p| p.id() == id)
}
