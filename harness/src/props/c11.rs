//! C11 - validation output is deterministic and ordered by position.

use crate::core::*;
use crate::gen::{self, LayoutCfg, ProjectCfg};
use crate::imp;
use crate::mutate;
use crate::projcase::ProjCase;
use crate::src::Src;
use aidl_parser::{ParseFileResult, Parser};
use serde_json::{json, Value};
use std::collections::{BTreeMap, HashMap};

pub struct C11;

type Res = HashMap<String, ParseFileResult<String>>;

fn run_order(files: &[(String, String)], order: &[usize], twice: bool) -> Result<(Res, Option<Res>), String> {
    imp::guarded(|| {
        let mut p: Parser<String> = Parser::new();
        for i in order {
            p.add_content(files[*i].0.clone(), &files[*i].1);
        }
        let a = p.validate();
        let b = if twice { Some(p.validate()) } else { None };
        (a, b)
    })
}

pub fn diff_results(a: &Res, b: &Res) -> Option<String> {
    let ka: std::collections::BTreeSet<_> = a.keys().collect();
    let kb: std::collections::BTreeSet<_> = b.keys().collect();
    if ka != kb {
        return Some(format!("key sets differ: {ka:?} vs {kb:?}"));
    }
    for k in ka {
        let (x, y) = (&a[k], &b[k]);
        if x.id != y.id {
            return Some(format!("file {k}: ids differ"));
        }
        if x.ast != y.ast {
            let d = match (&x.ast, &y.ast) {
                (Some(p), Some(q)) => crate::astvisit::first_diff(p, q),
                _ => "one has a tree, the other has none".to_owned(),
            };
            return Some(format!("file {k}: trees differ: {d}"));
        }
        if x.diagnostics != y.diagnostics {
            let show = |ds: &Vec<aidl_parser::diagnostic::Diagnostic>| ds.iter().map(crate::cmp::describe).collect::<Vec<_>>().join(" | ");
            return Some(format!(
                "file {k}: diagnostic lists differ:\n   run A: {}\n   run B: {}",
                show(&x.diagnostics),
                show(&y.diagnostics)
            ));
        }
    }
    None
}

pub fn check_order(res: &Res) -> Result<(), String> {
    for (k, r) in res {
        for w in r.diagnostics.windows(2) {
            if w[0].range.start.offset > w[1].range.start.offset {
                return Err(format!(
                    "file {k}: diagnostics not in ascending order of start position: `{}` before `{}`",
                    crate::cmp::describe(&w[0]),
                    crate::cmp::describe(&w[1])
                ));
            }
        }
    }
    Ok(())
}

/// canonical text of a validate() result (annotation maps sorted through serde_json::Value)
pub fn canonical_dump(res: &Res) -> String {
    let mut ids: Vec<&String> = res.keys().collect();
    ids.sort();
    let mut out = String::new();
    for id in ids {
        let r = &res[id];
        out.push_str(&format!("## {id} tagged {}\n", r.id));
        match &r.ast {
            Some(a) => out.push_str(&serde_json::to_value(a).map(|v| v.to_string()).unwrap_or_default()),
            None => out.push_str("no tree"),
        }
        out.push('\n');
        // Method.oneway is skipped by the serializer when true: dump it explicitly
        if let Some(aidl_parser::ast::Aidl {
            item: aidl_parser::ast::Item::Interface(i),
            ..
        }) = &r.ast
        {
            for el in &i.elements {
                if let aidl_parser::ast::InterfaceElement::Method(m) = el {
                    out.push_str(&format!("oneway {} {}\n", m.name, m.oneway));
                }
            }
        }
        for d in &r.diagnostics {
            out.push_str(&serde_json::to_string(d).unwrap_or_default());
            out.push('\n');
        }
    }
    out
}

/// entry point of the child process: `vh c11-dump <case.json>`
pub fn child_dump(path: &str) -> i32 {
    let Ok(s) = std::fs::read_to_string(path) else { return 2 };
    let Ok(v) = serde_json::from_str::<Value>(&s) else { return 2 };
    let files = super::c01::files_from_json(&v["files"]);
    let order: Vec<usize> = (0..files.len()).rev().collect();
    match run_order(&files, &order, false) {
        Ok((r, _)) => {
            print!("{}", canonical_dump(&r));
            0
        }
        Err(e) => {
            println!("PANIC {e}");
            0
        }
    }
}

/// compare with a re-executed copy of this program (another process: other base hash keys)
pub fn cross_process(files: &[(String, String)], base: &Res) -> Result<(), String> {
    let exe = std::env::current_exe().map_err(|e| format!("HARNESS: current_exe: {e}"))?;
    let dir = std::env::temp_dir();
    let path = dir.join(format!("vh-c11-{}-{:?}.json", std::process::id(), std::thread::current().id()).replace(['(', ')'], ""));
    std::fs::write(&path, json!({"files": super::c01::files_json(files)}).to_string()).map_err(|e| format!("HARNESS: {e}"))?;
    let out = std::process::Command::new(exe).arg("c11-dump").arg(&path).output();
    let _ = std::fs::remove_file(&path);
    let out = out.map_err(|e| format!("HARNESS: cannot run the child process: {e}"))?;
    if !out.status.success() {
        return Err(format!("HARNESS: child process failed: {:?}", out.status));
    }
    let theirs = String::from_utf8_lossy(&out.stdout).to_string();
    let ours = canonical_dump(base);
    if theirs != ours {
        let (a, b): (Vec<&str>, Vec<&str>) = (ours.lines().collect(), theirs.lines().collect());
        let i = (0..a.len().max(b.len())).find(|i| a.get(*i) != b.get(*i)).unwrap_or(0);
        return Err(format!(
            "another process (reverse insertion order) returns a different result; first differing line {i}:\n   this process:  {}\n   other process: {}",
            a.get(i).unwrap_or(&"<end>"),
            b.get(i).unwrap_or(&"<end>")
        ));
    }
    Ok(())
}

fn permutation(s: &mut Src, n: usize) -> Vec<usize> {
    let mut v: Vec<usize> = (0..n).collect();
    for i in (1..n).rev() {
        let j = s.below(i + 1);
        v.swap(i, j);
    }
    v
}

pub const RUNS: usize = 8;

pub fn check_files(files: &[(String, String)], s: &mut Src, st: &mut Stats) -> Result<(), String> {
    let n = files.len();
    let ident: Vec<usize> = (0..n).collect();
    let (base, again) = run_order(files, &ident, true)?;
    check_order(&base)?;
    if let Some(d) = diff_results(&base, again.as_ref().unwrap()) {
        return Err(format!("validate() called twice on the same parser: {d}"));
    }
    for r in 1..RUNS {
        let order = permutation(s, n);
        let res = if r == RUNS - 1 {
            // another thread
            let files_c: Vec<(String, String)> = files.to_vec();
            let order_c = order.clone();
            std::thread::spawn(move || run_order(&files_c, &order_c, false))
                .join()
                .map_err(|_| "worker thread panicked".to_owned())??
                .0
        } else {
            run_order(files, &order, false)?.0
        };
        check_order(&res)?;
        if let Some(d) = diff_results(&base, &res) {
            return Err(format!("fresh parser, insertion order {order:?} (run {r}): {d}"));
        }
    }
    // now and then: another process
    let every = if std::env::var("VERIF_TIER_NAME").as_deref() == Ok("thorough") { 25 } else { 80 };
    if !s.exhausted() && std::env::var("VERIF_NO_XPROC").is_err() && s.below(every) == 0 {
        cross_process(files, &base)?;
        st.add("cross_process_comparisons", 1);
    }
    // classification
    let mut max_per_line = 0;
    for r in base.values() {
        let mut per: BTreeMap<usize, usize> = BTreeMap::new();
        for d in &r.diagnostics {
            *per.entry(d.range.start.line_col.0).or_default() += 1;
        }
        max_per_line = max_per_line.max(per.values().copied().max().unwrap_or(0));
    }
    st.class(&format!("max-diagnostics-per-line:{}", max_per_line.min(6)));
    if base.values().any(|r| r.ast.is_none()) {
        st.class("has-file-without-tree");
    }
    st.add("validate_runs_compared", RUNS as u64 + 1);
    Ok(())
}

/// one line per file: imports etc. all on one line
fn one_line_layout() -> LayoutCfg {
    LayoutCfg {
        unicode_ws: false,
        comments: false,
        doc_comments: false,
        lone_cr: false,
        multibyte: false,
        no_sep: false,
        newline_heavy: false,
    }
}

/// One file with many diagnostics, several of them with the same start offset (two
/// different Errors on one direction keyword) and several produced while iterating
/// hash containers (unresolved / unused imports, unused declarations)
fn many_diagnostics_file(s: &mut Src) -> crate::model::FileM {
    use crate::model::*;
    let nimports = s.range(2, 6);
    let imports: Vec<Name> = (0..nimports).map(|i| vec!["p".to_owned(), format!("U{i}")]).collect();
    let ndecl = s.range(0, 3);
    let decls = (0..ndecl)
        .map(|i| DeclM {
            annos: vec![],
            name: vec![format!("D{i}")],
        })
        .collect();
    let iface_oneway = s.flip();
    let nm = s.range(6, 14);
    let members = (0..nm)
        .map(|i| {
            let na = s.range(1, 3);
            let args = (0..na)
                .map(|j| ArgM {
                    dir: Some(if s.flip() { DirM::Out } else { DirM::InOut }),
                    annos: vec![],
                    ty: match s.below(3) {
                        0 => TyM::Prim("int".into()),
                        1 => TyM::Str,
                        _ => TyM::Custom(vec!["IBinder".into()]),
                    },
                    name: Some(format!("a{j}")),
                })
                .collect();
            IMemberM::Method(MethodM {
                annos: vec![],
                oneway: !iface_oneway || s.flip(),
                ret: if s.chance(1, 4) { TyM::Prim("int".into()) } else { TyM::Void },
                name: format!("m{i}"),
                args,
                trailing_comma: false,
                code: None,
            })
        })
        .collect();
    FileM {
        package: vec!["p".into()],
        imports,
        decls,
        item: ItemM::Interface(InterfaceM {
            annos: vec![],
            oneway: iface_oneway,
            name: "Big".into(),
            members,
        }),
    }
}

pub fn gen_files(s: &mut Src) -> Result<(Vec<(String, String)>, bool), Fail> {
    if s.chance(1, 4) {
        let f = many_diagnostics_file(s);
        let mut z = Src::new(&[]);
        let case = ProjCase::from_project(crate::model::ProjectM { files: vec![f] }, &mut z, &one_line_layout())?;
        return Ok((case.files(), true));
    }
    let mut pc = ProjectCfg::default();
    pc.many_imports = true;
    pc.gen.max_members = 3;
    let p = gen::project(s, &pc);
    // layout: mostly single spaces (everything on one line), sometimes general
    let mut case = if s.chance(3, 4) {
        let mut z = Src::new(&[]);
        ProjCase::from_project(p, &mut z, &one_line_layout())?
    } else {
        ProjCase::from_project(p, s, &crate::projcase::calm_layout())?
    };
    // a file that keeps its tree but carries a recovered syntax error / an overflowing code:
    // syntax and validation diagnostics then share one list
    if s.chance(1, 3) {
        let i = s.below(case.docs.len());
        case.damage(i);
    }
    let mut files = case.files();
    // duplicate keys / ambiguity present?
    let mut special = case.keys.values().any(|k| k.len() > 1);
    for f in &case.project.files {
        let mut names: Vec<&String> = f.imports.iter().map(|i| &i[i.len() - 1]).collect();
        let total = names.len();
        names.sort();
        names.dedup();
        let mut paths: Vec<&Vec<String>> = f.imports.iter().collect();
        paths.sort();
        paths.dedup();
        if paths.len() > names.len() && total > 0 {
            special = true;
        }
    }
    // sometimes a file without a tree
    if s.chance(1, 4) {
        if s.flip() {
            let toks = mutate::token_soup(s, 12);
            files.push(("broken".to_owned(), toks.join(" ")));
        } else {
            // an item body with recovered member errors that is never closed: several syntax
            // diagnostics, no tree (so validation does not touch the list)
            let mut t = String::from("package p;\nimport p.U0; import p.U1;\ninterface I {\n");
            let n = s.range(1, 5);
            for i in 0..n {
                t.push_str(*s.pick(&[" int bad;", " void f(];", " void g() = 99999999999;", " const ;", " void ok();", " = 3;"]));
                if s.flip() {
                    t.push('\n');
                }
                let _ = i;
            }
            if s.flip() {
                t.push_str(" void last(");
            }
            files.push(("broken".to_owned(), t));
        }
    }
    Ok((files, special))
}

impl Prop for C11 {
    fn id(&self) -> &'static str {
        "C11"
    }
    fn rule(&self) -> String {
        format!("case = generated project (1-6 files + sometimes a file without tree) biased to many import / forward-declaration statements on one line, duplicate keys with different kinds and several imports matching one reference. Oracle: {RUNS} fresh parsers (fresh hash seeds) fed random permutations of the same (id, content) set, one on another thread, validate() twice on one: all results equal (key sets, trees by ==, diagnostic vectors element-wise) and every file's diagnostics in non-decreasing start offset. About 1 case in 80 (thorough: 1 in 25) is also sent to a re-executed copy of the harness (another process, reverse insertion order) and the canonical dumps are compared. Non-trivial = a file with >= 2 diagnostics on one line, or >= 2 files, or a duplicate key / ambiguous import; distinct by project text.")
    }
    fn assumptions(&self) -> Vec<String> {
        vec!["hash seeds cannot be chosen, only resampled: a dependence that shows with probability p per run is missed with probability (1-p)^(runs-1)".into()]
    }
    fn random_cases(&self, tier: Tier) -> u64 {
        tier.pick(4_000, 100_000)
    }
    fn max_bytes(&self) -> usize {
        3000
    }
    fn random(&self, _env: &Env, bytes: &[u8], st: &mut Stats) -> Result<(), Fail> {
        let mut s = Src::new(bytes);
        let (files, special) = gen_files(&mut s)?;
        st.eval();
        let case = || bytes_case(bytes, json!({"files": super::c01::files_json(&files)}));
        st.sample("project", || json!({"files": super::c01::files_json(&files)}));
        st.class(&format!("files:{}", files.len()));
        if special {
            st.class("duplicate-key-or-ambiguous-import");
        }
        let before = st.classes.get("max-diagnostics-per-line:0").copied().unwrap_or(0)
            + st.classes.get("max-diagnostics-per-line:1").copied().unwrap_or(0);
        check_files(&files, &mut s, st).map_err(|e| if e.starts_with("HARNESS") { Fail::harness(e) } else { Fail::new(e, case()) })?;
        let after = st.classes.get("max-diagnostics-per-line:0").copied().unwrap_or(0)
            + st.classes.get("max-diagnostics-per-line:1").copied().unwrap_or(0);
        let multi = after == before; // the case landed in a bucket >= 2
        if multi || files.len() >= 2 || special {
            let mut key = Vec::new();
            for f in &files {
                key.extend_from_slice(f.1.as_bytes());
                key.push(0);
            }
            st.nontrivial(&key);
        }
        Ok(())
    }
    fn replay_other(&self, _env: &Env, case: &Value, st: &mut Stats) -> Result<(), Fail> {
        if case.get("kind").and_then(|k| k.as_str()) == Some("text") {
            let files = super::c01::files_from_json(&case["files"]);
            st.eval();
            // repeat a few times: hash seeds are resampled on every run
            for round in 0..6u8 {
                let seed = [round, 7, 99, 31, 5, 200, 17, 64, 3, 250, 128, 77];
                let mut s = Src::new(&seed);
                check_files(&files, &mut s, st).map_err(|e| Fail::new(e, case.clone()))?;
            }
            return Ok(());
        }
        Err(Fail::harness("unknown case kind"))
    }
}
