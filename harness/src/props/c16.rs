//! C16 - pointing at a name finds the symbol that carries it.

use crate::core::*;
use crate::doccase;
use crate::gen::{GenCfg, LayoutCfg};
use crate::imp;
use crate::reftrav::{self, sym_id, Level};
use crate::src::Src;
use aidl_parser::ast;
use aidl_parser::traverse::{self, SymbolFilter};
use serde_json::json;
use unicode_segmentation::UnicodeSegmentation;

pub struct C16;

fn contains(r: &ast::Range, lc: (usize, usize)) -> bool {
    r.start.line_col <= lc && lc <= r.end.line_col
}

pub fn check_tree(text: &str, a: &ast::Aidl) -> Result<(usize, usize), String> {
    let mut lookups = 0;
    let mut hits = 0;
    let lines: Vec<&str> = text.split('\n').collect();
    for (level, filter) in [
        (Level::All, SymbolFilter::All),
        (Level::ItemsAndItemElements, SymbolFilter::ItemsAndItemElements),
        (Level::ItemsOnly, SymbolFilter::ItemsOnly),
    ] {
        let exp = reftrav::expected_symbols(a, level);
        let mut positions: Vec<(usize, usize)> = Vec::new();
        for (li, line) in lines.iter().enumerate() {
            let n = UnicodeSegmentation::graphemes(*line, true).count();
            for col in 1..=n + 2 {
                positions.push((li + 1, col));
            }
        }
        positions.push((lines.len() + 1, 1));
        positions.push((lines.len() + 5, 3));
        positions.push((0, 0));
        for lc in positions {
            let want = exp.iter().find(|s| contains(s.get_range(), lc)).map(sym_id);
            let got = imp::guarded(|| traverse::find_symbol_at_line_col(a, filter, lc).as_ref().map(sym_id))?;
            lookups += 1;
            if want.is_some() {
                hits += 1;
            }
            if got != want {
                let name = |id: Option<(u8, usize)>| {
                    id.and_then(|id| exp.iter().find(|s| sym_id(s) == id).map(|s| format!("{}({}) range {:?}..{:?}", reftrav::KIND_NAMES[id.0 as usize], s.get_name().unwrap_or_default(), s.get_range().start.line_col, s.get_range().end.line_col)))
                        .unwrap_or_else(|| format!("{id:?}"))
                };
                return Err(format!(
                    "find_symbol_at_line_col at {lc:?}, level {level:?}: expected {}, got {}",
                    name(want),
                    name(got)
                ));
            }
        }
    }
    Ok((lookups, hits))
}

impl Prop for C16 {
    fn id(&self) -> &'static str {
        "C16"
    }
    fn rule(&self) -> String {
        "case = validated tree of a generated document in a random layout (multi-line, CRLF, multi-byte text before names) x EVERY (line, column) from column 1 to two past the last grapheme cluster of every line, plus positions beyond the last line and (0,0), x the three filter levels. Oracle: the first symbol of the reference traversal at that level whose reported name range contains the position (lexicographic, inclusive at both ends), else nothing; compared by identity. Non-trivial = document spans >= 2 lines and some name is preceded by a multi-byte character on its line; distinct by text.".into()
    }
    fn random_cases(&self, tier: Tier) -> u64 {
        tier.pick(8_000, 60_000)
    }
    fn max_bytes(&self) -> usize {
        2000
    }
    fn random(&self, _env: &Env, bytes: &[u8], st: &mut Stats) -> Result<(), Fail> {
        let mut s = Src::new(bytes);
        let cfg = GenCfg {
            max_members: 4,
            ..GenCfg::default()
        };
        let lc = LayoutCfg {
            newline_heavy: s.chance(1, 2),
            ..LayoutCfg::default()
        };
        let d = doccase::gen_doc(&mut s, &cfg, &lc)?;
        st.eval();
        let text = &d.laid.text;
        let case = || bytes_case(bytes, json!({"text": text}));
        let (_, v) = imp::run_one(text).map_err(|e| Fail::new(e, case()))?;
        let tree = v.ast.ok_or_else(|| Fail::new("no tree for a well-formed document", case()))?;
        let multi_line = text.contains('\n');
        let mb_before_name = reftrav::expected_symbols(&tree, Level::All).iter().any(|sy| {
            let off = sy.get_range().start.offset;
            let before = &text[..off.min(text.len())];
            let ls = before.rfind('\n').map(|i| i + 1).unwrap_or(0);
            !before[ls..].is_ascii()
        });
        if multi_line && mb_before_name {
            st.nontrivial(text.as_bytes());
        }
        st.sample("doc", || json!({"text": text}));
        let (lookups, hits) = check_tree(text, &tree).map_err(|e| Fail::new(e, case()))?;
        st.add("lookups", lookups as u64);
        st.add("lookups_expected_to_hit", hits as u64);
        Ok(())
    }
    fn replay_other(&self, _env: &Env, case: &serde_json::Value, st: &mut Stats) -> Result<(), Fail> {
        if case.get("kind").and_then(|k| k.as_str()) == Some("text") {
            let text = case["text"].as_str().unwrap_or("");
            st.eval();
            let (_, v) = imp::run_one(text).map_err(|e| Fail::new(e, case.clone()))?;
            if let Some(t) = v.ast {
                check_tree(text, &t).map_err(|e| Fail::new(e, case.clone()))?;
            }
            return Ok(());
        }
        Err(Fail::harness("unknown case kind"))
    }
}
