//! C16 - pointing at a name finds the symbol that carries it.

use crate::core::*;
use crate::doccase;
use crate::gen::{GenCfg, LayoutCfg};
use crate::imp;
use crate::reftrav::{self, sym_id, Level};
use crate::src::Src;
use aidl_parser::ast;
use aidl_parser::traverse::{self, SymbolFilter};
use serde_json::json;
use unicode_segmentation::UnicodeSegmentation;

pub struct C16;

fn contains(r: &ast::Range, lc: (usize, usize)) -> bool {
    r.start.line_col <= lc && lc <= r.end.line_col
}

pub fn check_tree(text: &str, a: &ast::Aidl) -> Result<(usize, usize), String> {
    let mut lookups = 0;
    let mut hits = 0;
    let lines: Vec<&str> = text.split('\n').collect();
    let exhaustive = text.len() <= 4096;
    for (level, filter) in [
        (Level::All, SymbolFilter::All),
        (Level::ItemsAndItemElements, SymbolFilter::ItemsAndItemElements),
        (Level::ItemsOnly, SymbolFilter::ItemsOnly),
    ] {
        let exp = reftrav::expected_symbols(a, level);
        let mut positions: Vec<(usize, usize)> = Vec::new();
        for (li, line) in lines.iter().enumerate() {
            if !exhaustive {
                break; // very long lines: only the name probes below
            }
            let n = UnicodeSegmentation::graphemes(*line, true).count();
            for col in 1..=n + 2 {
                positions.push((li + 1, col));
            }
        }
        positions.push((lines.len() + 1, 1));
        positions.push((lines.len() + 5, 3));
        positions.push((0, 0));
        for lc in positions {
            let want = exp.iter().find(|s| contains(s.get_range(), lc)).map(sym_id);
            let got = imp::guarded(|| traverse::find_symbol_at_line_col(a, filter, lc).as_ref().map(sym_id))?;
            lookups += 1;
            if want.is_some() {
                hits += 1;
            }
            if got != want {
                let name = |id: Option<(u8, usize)>| {
                    id.and_then(|id| exp.iter().find(|s| sym_id(s) == id).map(|s| format!("{}({}) range {:?}..{:?}", reftrav::KIND_NAMES[id.0 as usize], s.get_name().unwrap_or_default(), s.get_range().start.line_col, s.get_range().end.line_col)))
                        .unwrap_or_else(|| format!("{id:?}"))
                };
                return Err(format!(
                    "find_symbol_at_line_col at {lc:?}, level {level:?}: expected {}, got {}",
                    name(want),
                    name(got)
                ));
            }
        }
    }
    // "consequently": pointing at the place in the SOURCE where a name is written finds a symbol
    // that covers it. The source position of a name comes from the offsets of its reported range
    // through the independent offset -> (line, column) oracle.
    for (level, filter) in [
        (Level::All, SymbolFilter::All),
        (Level::ItemsAndItemElements, SymbolFilter::ItemsAndItemElements),
        (Level::ItemsOnly, SymbolFilter::ItemsOnly),
    ] {
        for sy in reftrav::expected_symbols(a, level) {
            let r = sy.get_range();
            let (so, eo) = (r.start.offset, r.end.offset);
            if so >= eo || eo > text.len() {
                continue; // unnamed argument (empty range) or a range C04 rejects anyway
            }
            let mut probes = vec![so, eo];
            let mut mid = so + (eo - so) / 2;
            while !text.is_char_boundary(mid) {
                mid -= 1;
            }
            probes.push(mid);
            for o in probes {
                if !text.is_char_boundary(o) {
                    continue;
                }
                let Some(lc) = crate::pos::line_col(text, o) else { continue };
                let got = imp::guarded(|| traverse::find_symbol_at_line_col(a, filter, lc).map(|g| (g.get_range().start.offset, g.get_range().end.offset)))?;
                lookups += 1;
                match got {
                    Some((gs, ge)) if gs <= o && o <= ge => {}
                    other => {
                        return Err(format!(
                            "pointing at {lc:?} (offset {o}, inside the name `{}` written at {so}..{eo}) at level {level:?} finds {}",
                            &text[so..eo],
                            match other {
                                None => "nothing".to_owned(),
                                Some((gs, ge)) => format!("a symbol covering {gs}..{ge}, which does not contain the offset"),
                            }
                        ))
                    }
                }
            }
        }
    }
    Ok((lookups, hits))
}

impl Prop for C16 {
    fn id(&self) -> &'static str {
        "C16"
    }
    fn rule(&self) -> String {
        "case = validated tree of a generated document in a random layout (multi-line, CRLF, multi-byte text before names) x EVERY (line, column) from column 1 to two past the last grapheme cluster of every line, plus positions beyond the last line and (0,0), x the three filter levels. Oracle: the first symbol of the reference traversal at that level whose reported name range contains the position (lexicographic, inclusive at both ends), else nothing; compared by identity. In addition, for every symbol the source position of its name (offsets of its range through the offset->(line, column) oracle; start, middle, end) is looked up and must find a symbol covering that offset; 1 document in 400 is placed at the end of a single line longer than 65535 bytes with multi-byte text. Non-trivial = document spans >= 2 lines and some name is preceded by a multi-byte character on its line; distinct by text.".into()
    }
    fn random_cases(&self, tier: Tier) -> u64 {
        tier.pick(8_000, 60_000)
    }
    fn max_bytes(&self) -> usize {
        2000
    }
    fn random(&self, _env: &Env, bytes: &[u8], st: &mut Stats) -> Result<(), Fail> {
        let mut s = Src::new(bytes);
        let cfg = GenCfg {
            max_members: 4,
            ..GenCfg::default()
        };
        // rarely: the document sits at the end of a single line longer than 65535 bytes
        let huge = s.chance(1, 300);
        let lc = LayoutCfg {
            newline_heavy: s.chance(1, 2),
            comments: !huge, // joining the lines below must not let a line comment swallow the rest
            doc_comments: !huge,
            ..LayoutCfg::default()
        };
        let d = if !huge && s.chance(1, 6) {
            let (primer, d) = doccase::gen_primed_doc(&mut s, &cfg, &lc)?;
            let _ = imp::run_one(&primer);
            st.class("primed");
            d
        } else {
            doccase::gen_doc(&mut s, &cfg, &lc)?
        };
        st.eval();
        let huge_text;
        let text = if huge {
            st.class("huge-line");
            huge_text = format!("/* {} */ {}", "\u{e9}".repeat(33_000 + s.below(500)), d.laid.text.replace(['\n', '\r', '\u{85}', '\u{2028}', '\u{2029}', '\u{b}', '\u{c}'], " "));
            &huge_text
        } else {
            &d.laid.text
        };
        let case = || bytes_case(bytes, json!({"text": text}));
        let (_, v) = imp::run_one(text).map_err(|e| Fail::new(e, case()))?;
        let tree = match v.ast {
            Some(t) => t,
            None if huge => {
                // joining the lines may have let a line comment swallow the rest: not a document
                st.discard("huge-line variant no longer well-formed");
                return Ok(());
            }
            None => return Err(Fail::new("no tree for a well-formed document", case())),
        };
        let multi_line = text.contains('\n');
        let mb_before_name = reftrav::expected_symbols(&tree, Level::All).iter().any(|sy| {
            let off = sy.get_range().start.offset;
            let before = &text[..off.min(text.len())];
            let ls = before.rfind('\n').map(|i| i + 1).unwrap_or(0);
            !before[ls..].is_ascii()
        });
        if multi_line && mb_before_name {
            st.nontrivial(text.as_bytes());
        }
        st.sample("doc", || json!({"text": text}));
        let (lookups, hits) = check_tree(text, &tree).map_err(|e| Fail::new(e, case()))?;
        st.add("lookups", lookups as u64);
        st.add("lookups_expected_to_hit", hits as u64);
        Ok(())
    }
    fn replay_other(&self, _env: &Env, case: &serde_json::Value, st: &mut Stats) -> Result<(), Fail> {
        if case.get("kind").and_then(|k| k.as_str()) == Some("text") {
            let text = case["text"].as_str().unwrap_or("");
            st.eval();
            let (_, v) = imp::run_one(text).map_err(|e| Fail::new(e, case.clone()))?;
            if let Some(t) = v.ast {
                check_tree(text, &t).map_err(|e| Fail::new(e, case.clone()))?;
            }
            return Ok(());
        }
        Err(Fail::harness("unknown case kind"))
    }
}
