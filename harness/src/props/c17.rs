//! C17 - an item's qualified name is the key that references to it resolve to.

use crate::core::*;
use crate::gen::ProjectCfg;
use crate::imp;
use crate::projcase::{self, ProjCase};
use crate::reftrav::{self, Level};
use crate::refval::Route;
use crate::src::Src;
use aidl_parser::ast;
use aidl_parser::symbol::Symbol;
use serde_json::json;

pub struct C17;

/// expected (name, qualified name) of a symbol, from the statement. None = not stated.
fn expected_names(s: &Symbol, pkg: &str) -> (Option<Option<String>>, Option<Option<String>>) {
    let some = |x: String| Some(Some(x));
    match s {
        Symbol::Package(p) => (some(p.name.clone()), some(p.name.clone())),
        Symbol::Import(i) => {
            let q = if i.path.is_empty() { i.name.clone() } else { format!("{}.{}", i.path, i.name) };
            (None, some(q))
        }
        Symbol::Interface(i, _) => (some(i.name.clone()), some(format!("{pkg}.{}", i.name))),
        Symbol::Parcelable(i, _) => (some(i.name.clone()), some(format!("{pkg}.{}", i.name))),
        Symbol::Enum(i, _) => (some(i.name.clone()), some(format!("{pkg}.{}", i.name))),
        Symbol::Method(m, i) => (some(m.name.clone()), some(format!("{}::{}", i.name, m.name))),
        Symbol::Arg(a, _) => match &a.name {
            Some(n) => (some(n.clone()), None),
            None => (None, None),
        },
        Symbol::Const(c, o) => (some(c.name.clone()), some(format!("{}::{}", o.get_name(), c.name))),
        Symbol::Field(f, p) => (some(f.name.clone()), some(format!("{}::{}", p.name, f.name))),
        Symbol::EnumElement(el, e) => (some(el.name.clone()), some(format!("{}::{}", e.name, el.name))),
        Symbol::Type(_) => (None, None),
    }
}

pub fn check_project(case: &ProjCase, st: &mut Stats) -> Result<bool, String> {
    let out = case.run()?;
    let mut cross = false;
    for (i, d) in case.docs.iter().enumerate() {
        let id = &case.ids[i];
        let v = out.valid.get(id).ok_or("missing result")?;
        let actual = v.ast.as_ref().ok_or_else(|| format!("file {id}: no tree for a well-formed document"))?;
        let model = &case.project.files[i];
        let pkg = model.package.join(".");
        if case.damaged[i].is_some() {
            // carries an injected malformed member: only its key / item name are compared
            let key = model.key();
            let got_key = imp::guarded(|| actual.get_key())?;
            if got_key != key {
                return Err(format!("file {id}: Aidl::get_key() = {got_key:?}, registered key is {key:?}"));
            }
            continue;
        }
        // the tree must mirror the model, so that names below are the source identifiers
        crate::cmp::compare_structure(
            &d.expected,
            actual,
            crate::astvisit::Mask {
                ranges: true,
                docs: true,
                kinds: true,
                method_oneway: true,
            },
        )
        .map_err(|e| format!("file {id}: {e}"))?;
        let key = model.key();
        let got_key = imp::guarded(|| actual.get_key())?;
        if got_key != key {
            return Err(format!("file {id}: Aidl::get_key() = {got_key:?}, registered key is {key:?}"));
        }
        let syms = reftrav::expected_symbols(actual, Level::All);
        for s in &syms {
            let (en, eq) = expected_names(s, &pkg);
            let (gn, gq) = imp::guarded(|| (s.get_name(), s.get_qualified_name()))?;
            if let Some(en) = en {
                if gn != en {
                    return Err(format!("file {id}: get_name() of {} = {gn:?}, expected {en:?}", reftrav::KIND_NAMES[reftrav::sym_id(s).0 as usize]));
                }
            }
            if let Some(eq) = eq {
                if gq != eq {
                    return Err(format!(
                        "file {id}: get_qualified_name() of {} `{}` = {gq:?}, expected {eq:?}",
                        reftrav::KIND_NAMES[reftrav::sym_id(s).0 as usize],
                        gn.clone().unwrap_or_default()
                    ));
                }
            }
            st.add("symbols_checked", 1);
        }
        // item symbol's qualified name == key
        let item_sym = syms.iter().find(|s| matches!(s, Symbol::Interface(..) | Symbol::Parcelable(..) | Symbol::Enum(..))).unwrap();
        let iq = imp::guarded(|| item_sym.get_qualified_name())?;
        if iq.as_deref() != Some(key.as_str()) {
            return Err(format!("file {id}: item symbol's qualified name {iq:?} differs from the registration key {key:?}"));
        }
        st.class(&format!("item:{}:pkg-depth:{}", model.item.kind_str(), model.package.len()));
    }
    // references: every type symbol, in any file, that the reference resolves to a project item
    for (i, _) in case.docs.iter().enumerate() {
        let id = &case.ids[i];
        if case.damaged[i].is_some() {
            continue;
        }
        let Ok(r) = case.reference(i) else {
            st.discard("dont-care corner");
            continue;
        };
        let actual = out.valid[id].ast.as_ref().unwrap();
        let exp_types = crate::astvisit::all_types(&r.tree);
        let act_types = crate::astvisit::all_types(actual);
        for ((path, et), (_, _)) in exp_types.iter().zip(act_types.iter()) {
            if let ast::TypeKind::ResolvedItem(k, _) = &et.kind {
                let route = r.routes.iter().find(|x| &x.0 == path).map(|x| x.1);
                if route != Some(Route::ImportDefined) {
                    continue;
                }
                // find the target file(s) and compare with their item symbol's qualified name
                for (j, f) in case.project.files.iter().enumerate() {
                    if &f.key() == k {
                        let target = out.valid[&case.ids[j]].ast.as_ref().unwrap();
                        let tsyms = reftrav::expected_symbols(target, Level::ItemsOnly);
                        let tq = imp::guarded(|| tsyms[0].get_qualified_name())?;
                        // the referencing type symbol, located by path in the actual tree
                        let at = act_types.iter().find(|x| &x.0 == path).map(|x| &x.1).unwrap();
                        let rq = imp::guarded(|| Symbol::Type(at).get_qualified_name())?;
                        cross = true;
                        st.add("cross_file_references_checked", 1);
                        if rq != tq {
                            return Err(format!(
                                "file {id}: type `{}` at {path} resolves to the item of file {} but their qualified names differ: reference {rq:?}, item {tq:?} (key {k:?})",
                                et.name, case.ids[j]
                            ));
                        }
                    }
                }
            }
        }
    }
    Ok(cross)
}

impl Prop for C17 {
    fn id(&self) -> &'static str {
        "C17"
    }
    fn rule(&self) -> String {
        "case = generated multi-file project (every item kind x package depth 1-3 x references in every position of other files). Oracle: for each file the item symbol's get_qualified_name() == package + '.' + name == Aidl::get_key() == the key of the model; for every type symbol in any file that the reference validator resolves (through an import) to a project item, the same string as that item's symbol; members Owner::member; imports / package their dotted names; get_name() of item, member, named argument, enum element = the identifier in the model. Non-trivial = project with >= 1 cross-file reference that resolves to an item; distinct by project text.".into()
    }
    fn random_cases(&self, tier: Tier) -> u64 {
        tier.pick(16_000, 200_000)
    }
    fn max_bytes(&self) -> usize {
        3000
    }
    fn random(&self, _env: &Env, bytes: &[u8], st: &mut Stats) -> Result<(), Fail> {
        let mut s = Src::new(bytes);
        let mut pc = ProjectCfg::default();
        pc.gen.max_members = 3;
        let case = projcase::gen_proj(&mut s, &pc, &projcase::calm_layout())?;
        st.eval();
        st.sample("project", || case.json());
        let cross = check_project(&case, st).map_err(|e| Fail::new(e, bytes_case(bytes, case.json())))?;
        if cross {
            let mut key = Vec::new();
            for d in &case.docs {
                key.extend_from_slice(d.laid.text.as_bytes());
                key.push(0);
            }
            st.nontrivial(&key);
        }
        Ok(())
    }
    fn replay_other(&self, _env: &Env, case: &serde_json::Value, st: &mut Stats) -> Result<(), Fail> {
        if case.get("kind").and_then(|k| k.as_str()) == Some("project") {
            let p: crate::model::ProjectM =
                serde_json::from_value(case["project"].clone()).map_err(|e| Fail::harness(format!("bad project: {e}")))?;
            let mut s = Src::new(&[]);
            let pcase = ProjCase::from_project(p, &mut s, &projcase::calm_layout())?;
            st.eval();
            return check_project(&pcase, st).map(|_| ()).map_err(|e| Fail::new(e, case.clone()));
        }
        Err(Fail::harness("unknown case kind"))
    }
}
