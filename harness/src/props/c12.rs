//! C12 - results depend only on the surviving contents, not on the edit history.
//! Stateful / model-based: abstract state = id -> content.

use crate::core::*;
use crate::gen::{self, ProjectCfg};
use crate::imp;
use crate::mutate;
use crate::projcase::{self, ProjCase};
use crate::src::Src;
use aidl_parser::diagnostic::Diagnostic;
use aidl_parser::{ParseFileResult, Parser};
use serde::{Deserialize, Serialize};
use serde_json::{json, Value};
use std::collections::{BTreeMap, HashMap};
use std::path::PathBuf;

pub struct C12;

#[derive(Clone, Copy, Debug, PartialEq, Eq, Serialize, Deserialize)]
pub enum Op {
    Add(usize, usize),
    Remove(usize),
    Validate,
    AddFileOk(usize, usize),
    AddFileMissing(usize),
    AddFileBad(usize),
}

type Res = HashMap<PathBuf, ParseFileResult<PathBuf>>;

fn norm(ds: &[Diagnostic]) -> Vec<Diagnostic> {
    let mut v = ds.to_vec();
    v.sort_by(|a, b| {
        (a.range.start.offset, a.range.end.offset, &a.message).cmp(&(b.range.start.offset, b.range.end.offset, &b.message))
    });
    v
}

fn diff(a: &Res, b: &Res) -> Option<String> {
    let ka: std::collections::BTreeSet<_> = a.keys().collect();
    let kb: std::collections::BTreeSet<_> = b.keys().collect();
    if ka != kb {
        return Some(format!("key sets differ: long-lived {ka:?} vs fresh {kb:?}"));
    }
    for k in ka {
        let (x, y) = (&a[k], &b[k]);
        if &x.id != k || &y.id != k {
            return Some(format!("result under {k:?} tagged {:?} / {:?}", x.id, y.id));
        }
        if x.ast != y.ast {
            let d = match (&x.ast, &y.ast) {
                (Some(p), Some(q)) => crate::astvisit::first_diff(q, p),
                _ => "one has a tree, the other has none".to_owned(),
            };
            return Some(format!("{k:?}: trees differ (fresh = expected): {d}"));
        }
        if norm(&x.diagnostics) != norm(&y.diagnostics) {
            let show = |ds: &[Diagnostic]| ds.iter().map(crate::cmp::describe).collect::<Vec<_>>().join(" | ");
            return Some(format!(
                "{k:?}: diagnostics differ:\n   long-lived: {}\n   fresh:      {}",
                show(&x.diagnostics),
                show(&y.diagnostics)
            ));
        }
    }
    None
}

pub struct Scratch {
    pub dir: PathBuf,
}

impl Scratch {
    pub fn new() -> Scratch {
        let dir = std::env::temp_dir().join(format!("vh-c12-{}-{:?}", std::process::id(), std::thread::current().id()).replace(['(', ')'], ""));
        let _ = std::fs::create_dir_all(&dir);
        Scratch { dir }
    }
}

impl Drop for Scratch {
    fn drop(&mut self) {
        let _ = std::fs::remove_dir_all(&self.dir);
    }
}

thread_local! {
    static SCRATCH: Scratch = Scratch::new();
}

/// A fresh parser holding the model map, built and validated on a NEW thread, so that no
/// per-thread state of the long-lived parser's thread can leak into the expected result.
fn fresh(model: &BTreeMap<PathBuf, String>) -> Result<Res, String> {
    std::thread::scope(|sc| {
        sc.spawn(|| {
            imp::guarded(|| {
                let mut p: Parser<PathBuf> = Parser::new();
                for (id, c) in model {
                    p.add_content(id.clone(), c);
                }
                p.validate()
            })
        })
        .join()
        .map_err(|_| "fresh-parser thread panicked".to_owned())?
    })
}

/// Runs a history; `start` = contents loaded before the history begins (index per id)
pub fn run_history(
    start: &[Option<usize>],
    ops: &[Op],
    nids: usize,
    contents: &[String],
    memo: &mut Option<HashMap<Vec<Option<usize>>, Res>>,
    st: &mut Stats,
) -> Result<(), String> {
    SCRATCH.with(|sc| {
        // ids are deliberately NOT in canonical form (".." component): the result must be keyed
        // and tagged by the path as given
        let _ = std::fs::create_dir_all(sc.dir.join("sub"));
        let ids: Vec<PathBuf> = (0..nids)
            .map(|i| if i % 2 == 0 { sc.dir.join("sub").join("..").join(format!("f{i}.aidl")) } else { sc.dir.join(format!("f{i}.aidl")) })
            .collect();
        let mut state: Vec<Option<usize>> = vec![None; nids];
        let mut model: BTreeMap<PathBuf, String> = BTreeMap::new();
        let mut parser: Parser<PathBuf> = Parser::new();
        for (i, c) in start.iter().enumerate() {
            if let Some(c) = c {
                let (id, text) = (ids[i].clone(), contents[*c].clone());
                imp::guarded(|| parser.add_content(id.clone(), &text))?;
                model.insert(id, text);
                state[i] = Some(*c);
            }
        }
        for (step, op) in ops.iter().enumerate() {
            let what = format!("step {step} {op:?}");
            match *op {
                Op::Add(i, c) => {
                    let (id, text) = (ids[i].clone(), contents[c].clone());
                    imp::guarded(|| parser.add_content(id.clone(), &text)).map_err(|e| format!("{what}: {e}"))?;
                    model.insert(id, text);
                    state[i] = Some(c);
                }
                Op::Remove(i) => {
                    let id = ids[i].clone();
                    imp::guarded(|| parser.remove_content(id.clone())).map_err(|e| format!("{what}: {e}"))?;
                    model.remove(&id);
                    state[i] = None;
                }
                Op::Validate => {
                    let (a, b) = imp::guarded(|| (parser.validate(), parser.validate())).map_err(|e| format!("{what}: {e}"))?;
                    if let Some(d) = diff(&a, &b) {
                        return Err(format!("{what}: validate() twice in a row gives different results: {d}"));
                    }
                }
                Op::AddFileOk(i, c) => {
                    std::fs::write(&ids[i], contents[c].as_bytes()).map_err(|e| format!("HARNESS: cannot write scratch file: {e}"))?;
                    let r = imp::guarded(|| parser.add_file(&ids[i])).map_err(|e| format!("{what}: {e}"))?;
                    if let Err(e) = r {
                        return Err(format!("{what}: loading a readable UTF-8 file failed: {e}"));
                    }
                    model.insert(ids[i].clone(), contents[c].clone());
                    state[i] = Some(c);
                }
                Op::AddFileMissing(i) => {
                    let _ = std::fs::remove_file(&ids[i]);
                    let r = imp::guarded(|| parser.add_file(&ids[i])).map_err(|e| format!("{what}: {e}"))?;
                    if r.is_ok() {
                        return Err(format!("{what}: loading a missing file reported success"));
                    }
                }
                Op::AddFileBad(i) => {
                    std::fs::write(&ids[i], [b'p', 0xff, 0xfe, b'\n']).map_err(|e| format!("HARNESS: cannot write scratch file: {e}"))?;
                    let r = imp::guarded(|| parser.add_file(&ids[i])).map_err(|e| format!("{what}: {e}"))?;
                    if r.is_ok() {
                        return Err(format!("{what}: loading a non-UTF-8 file reported success"));
                    }
                }
            }
            // after every step: long-lived == fresh(model)
            let actual = imp::guarded(|| parser.validate()).map_err(|e| format!("{what}: validate: {e}"))?;
            let expected_owned;
            let expected: &Res = match memo {
                Some(m) => {
                    if !m.contains_key(&state) {
                        let f = fresh(&model).map_err(|e| format!("{what}: fresh parser: {e}"))?;
                        m.insert(state.clone(), f);
                    }
                    &m[&state]
                }
                None => {
                    expected_owned = fresh(&model).map_err(|e| format!("{what}: fresh parser: {e}"))?;
                    &expected_owned
                }
            };
            if let Some(d) = diff(&actual, expected) {
                return Err(format!(
                    "after {what} (surviving contents: {:?}): {d}",
                    state
                ));
            }
            st.add("steps_compared", 1);
        }
        for id in &ids {
            let _ = std::fs::remove_file(id);
        }
        Ok(())
    })
}

pub fn fixed_contents() -> Vec<String> {
    vec![
        "package a; import a.P; interface I { void f(in P p, in List<P> l); P g(); }".to_owned(),
        "package a; parcelable P { int x; }".to_owned(),
        "package a; enum P { A, B }".to_owned(),
        "package a; interface {".to_owned(),
        // two texts that recover to the SAME tree (same ranges) but different syntax diagnostics
        "package a; parcelable P { int x; - }".to_owned(),
        "package a; parcelable P { int x; = }".to_owned(),
    ]
}

// exhaustive alphabet over 3 ids x 4 contents
fn alphabet() -> Vec<Op> {
    let mut v = Vec::new();
    for i in 0..3 {
        for c in 0..NC {
            v.push(Op::Add(i, c));
        }
    }
    for i in 0..3 {
        v.push(Op::Remove(i));
    }
    v.push(Op::Validate);
    for i in 0..3 {
        v.push(Op::AddFileOk(i, (i + 1) % NC));
    }
    v.push(Op::AddFileMissing(0));
    v.push(Op::AddFileBad(1));
    v
}

const NC: usize = 6; // number of fixed contents

fn states() -> Vec<Vec<Option<usize>>> {
    let mut v = Vec::new();
    for a in 0..=NC {
        for b in 0..=NC {
            for c in 0..=NC {
                let f = |x: usize| if x == 0 { None } else { Some(x - 1) };
                v.push(vec![f(a), f(b), f(c)]);
            }
        }
    }
    v
}

fn enum_layout(tier: Tier) -> (u32, u32) {
    // (length from the empty parser, length from every reachable state)
    match tier {
        Tier::Quick => (3, 1),
        Tier::Thorough => (4, 2),
    }
}

thread_local! {
    static MEMO: std::cell::RefCell<Option<HashMap<Vec<Option<usize>>, Res>>> = std::cell::RefCell::new(Some(HashMap::new()));
}

fn is_nontrivial(start: &[Option<usize>], ops: &[Op]) -> bool {
    let mut present: Vec<bool> = start.iter().map(|s| s.is_some()).collect();
    let mut nt = false;
    for op in ops {
        match op {
            Op::Add(i, _) | Op::AddFileOk(i, _) => {
                if present[*i] {
                    nt = true;
                }
                present[*i] = true;
            }
            Op::Remove(_) => nt = true,
            _ => {}
        }
    }
    nt
}

impl Prop for C12 {
    fn id(&self) -> &'static str {
        "C12"
    }
    fn rule(&self) -> String {
        "histories over {add/replace(id, content), remove(id) (present or absent), validate (called twice, must be idempotent), add_file(readable | missing | invalid UTF-8)} on a Parser<PathBuf> with files in a per-run scratch directory. After EVERY step validate() of the long-lived parser is compared (key set, id tags, trees by ==, diagnostics as position-sorted multisets) with validate() of a fresh parser (built on a new thread) loaded with the model map id -> latest content. Enumerated part: all sequences over a 27-operation alphabet (3 ids x 6 interacting contents: interface importing a.P, parcelable a.P, enum a.P, malformed text, and two texts that recover to the same tree with different syntax diagnostics) of length <= 3 (thorough 4) from the empty parser and of length <= 1 (thorough 2) from each of the 343 abstract states. Random part: histories of up to 40 operations over 2-6 ids and the texts of a generated project plus mutants. Non-trivial = history contains a replacement or a removal; distinct by (start state, operation sequence, contents).".into()
    }
    fn random_cases(&self, tier: Tier) -> u64 {
        tier.pick(1_500, 40_000)
    }
    fn max_bytes(&self) -> usize {
        3000
    }
    fn exhaustive(&self, _tier: Tier) -> bool {
        true
    }
    fn enum_count(&self, tier: Tier) -> u64 {
        let a = alphabet().len() as u64;
        let (l0, ls) = enum_layout(tier);
        a.pow(l0) + (states().len() as u64) * a.pow(ls)
    }
    fn enum_case(&self, env: &Env, idx: u64, st: &mut Stats) -> Result<(), Fail> {
        let alpha = alphabet();
        let a = alpha.len() as u64;
        let (l0, ls) = enum_layout(env.tier);
        let (start, mut code, len) = if idx < a.pow(l0) {
            (vec![None, None, None], idx, l0)
        } else {
            let r = idx - a.pow(l0);
            (states()[(r / a.pow(ls)) as usize].clone(), r % a.pow(ls), ls)
        };
        // sequences of exactly `len` operations; shorter ones are their prefixes (every step is compared)
        let mut ops = Vec::new();
        for _ in 0..len {
            ops.push(alpha[(code % a) as usize]);
            code /= a;
        }
        st.eval();
        st.class("enumerated");
        if is_nontrivial(&start, &ops) {
            st.nontrivial(format!("{start:?}{ops:?}").as_bytes());
        }
        st.sample("enumerated", || json!({"start": format!("{start:?}"), "ops": format!("{ops:?}")}));
        let contents = fixed_contents();
        MEMO.with(|m| {
            let mut memo = m.borrow_mut();
            run_history(&start, &ops, 3, &contents, &mut memo, st)
        })
        .map_err(|e| history_fail(e, &start, &ops, 3, &contents))
    }
    fn random(&self, _env: &Env, bytes: &[u8], st: &mut Stats) -> Result<(), Fail> {
        let mut s = Src::new(bytes);
        // contents: texts of a generated project, some mutants, the fixed ones
        let mut pc = ProjectCfg::default();
        pc.gen.max_members = 3;
        let p = gen::project(&mut s, &pc);
        let case = ProjCase::from_project(p, &mut s, &projcase::calm_layout())?;
        let mut contents: Vec<String> = case.files().into_iter().map(|f| f.1).collect();
        contents.push(mutate::char_soup(&mut s, 10));
        contents.push(String::new());
        contents.push("\u{FEFF}package a; parcelable P { Strin x; }".to_owned());
        contents.push("package a;\r\nparcelable P { int x; }\r\n".to_owned());
        contents.extend(fixed_contents());
        let nids = s.range(2, 6);
        let nops = s.range(1, 40);
        let mut ops = Vec::new();
        for _ in 0..nops {
            let i = s.below(nids);
            let c = s.below(contents.len());
            ops.push(match s.weighted(&[10, 5, 3, 3, 1, 1]) {
                0 => Op::Add(i, c),
                1 => Op::Remove(i),
                2 => Op::Validate,
                3 => Op::AddFileOk(i, c),
                4 => Op::AddFileMissing(i),
                _ => Op::AddFileBad(i),
            });
        }
        st.eval();
        st.class(&format!("ops:{}", (ops.len() / 10) * 10));
        let start = vec![None; nids];
        if is_nontrivial(&start, &ops) {
            st.nontrivial(format!("{ops:?}{contents:?}").as_bytes());
        }
        st.sample("random-history", || json!({"ops": format!("{ops:?}"), "contents": contents.iter().map(|c| super::c01::truncate(c, 120)).collect::<Vec<_>>()}));
        let mut none = None;
        run_history(&start, &ops, nids, &contents, &mut none, st).map_err(|e| {
            let mut f = history_fail(e, &start, &ops, nids, &contents);
            if let Value::Object(m) = &mut f.case {
                m.insert("hex".into(), json!(hex(bytes)));
            }
            f
        })
    }
    fn replay_other(&self, _env: &Env, case: &Value, st: &mut Stats) -> Result<(), Fail> {
        if case.get("kind").and_then(|k| k.as_str()) == Some("history") {
            let ops: Vec<Op> = serde_json::from_value(case["ops"].clone()).map_err(|e| Fail::harness(format!("bad ops: {e}")))?;
            let start: Vec<Option<usize>> = serde_json::from_value(case["start"].clone()).map_err(|e| Fail::harness(format!("bad start: {e}")))?;
            let contents: Vec<String> = serde_json::from_value(case["contents"].clone()).map_err(|e| Fail::harness(format!("bad contents: {e}")))?;
            let nids = case["nids"].as_u64().unwrap_or(3) as usize;
            st.eval();
            let mut none = None;
            return run_history(&start, &ops, nids, &contents, &mut none, st).map_err(|e| history_fail(e, &start, &ops, nids, &contents));
        }
        Err(Fail::harness("unknown case kind"))
    }
}

fn history_fail(e: String, start: &[Option<usize>], ops: &[Op], nids: usize, contents: &[String]) -> Fail {
    if e.starts_with("HARNESS") {
        return Fail::harness(e);
    }
    Fail::new(
        e,
        json!({"kind": "history", "start": start, "ops": ops, "nids": nids, "contents": contents}),
    )
}
