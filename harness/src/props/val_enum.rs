//! Bounded-exhaustive enumerators for C07..C10. Every enumerated case is a small
//! project: three support files (interface p.If, parcelable p.Pa, enum p.En) plus one
//! observed file that imports them (and the undefined p.Unk) and forward-declares Fw,
//! so that all 17 type categories arise through real multi-file resolution.

use super::val::{project_case_json, ValProp};
use crate::core::*;
use crate::model::*;
use crate::projcase::{self, ProjCase};
use crate::src::{splitmix64, Src};
use crate::valcheck::Which;
use serde_json::json;

pub const LEAVES: usize = 16; // 14 categories + raw List + raw Map

fn name(s: &str) -> Name {
    vec![s.to_owned()]
}

fn leaf(i: usize) -> TyM {
    match i {
        0 => TyM::Prim("int".into()),
        1 => TyM::Void,
        2 => TyM::Str,
        3 => TyM::CharSeq,
        4 => TyM::Custom(name("IBinder")),
        5 => TyM::Custom(name("FileDescriptor")),
        6 => TyM::Custom(name("ParcelFileDescriptor")),
        7 => TyM::Custom(name("ParcelableHolder")),
        8 => TyM::Custom(name("If")),
        9 => TyM::Custom(name("Pa")),
        10 => TyM::Custom(name("En")),
        11 => TyM::Custom(name("Fw")),
        12 => TyM::Custom(name("Unk")),
        13 => TyM::Custom(name("Nope")),
        14 => TyM::List(None),
        _ => TyM::Map(None),
    }
}

/// the 17 argument / return categories
fn category(i: usize) -> TyM {
    match i {
        0..=13 => leaf(i),
        14 => TyM::Array(Box::new(TyM::Prim("int".into()))),
        15 => TyM::List(Some(Box::new(TyM::Str))),
        _ => TyM::Map(Some(Box::new((TyM::Str, TyM::Str)))),
    }
}

pub const CATEGORY_NAMES: [&str; 17] = [
    "primitive", "void", "String", "CharSequence", "IBinder", "FileDescriptor", "ParcelFileDescriptor", "ParcelableHolder", "interface",
    "parcelable", "enum", "forward-declared", "unknown-import", "unresolved", "array", "list", "map",
];

fn shapes(level: usize) -> u64 {
    // number of type shapes with at most `level` container levels
    let mut t = LEAVES as u64;
    for _ in 0..level {
        t = LEAVES as u64 + 2 * t + t * t;
    }
    t
}

fn shape(level: usize, mut idx: u64) -> TyM {
    if idx < LEAVES as u64 {
        return leaf(idx as usize);
    }
    idx -= LEAVES as u64;
    let n = shapes(level - 1);
    if idx < n {
        return TyM::Array(Box::new(shape(level - 1, idx)));
    }
    idx -= n;
    if idx < n {
        return TyM::List(Some(Box::new(shape(level - 1, idx))));
    }
    idx -= n;
    TyM::Map(Some(Box::new((shape(level - 1, idx / n), shape(level - 1, idx % n)))))
}

fn support_files() -> Vec<FileM> {
    let pkg = name("p");
    vec![
        FileM {
            package: pkg.clone(),
            imports: vec![],
            decls: vec![],
            item: ItemM::Interface(InterfaceM {
                annos: vec![],
                oneway: false,
                name: "If".into(),
                members: vec![],
            }),
        },
        FileM {
            package: pkg.clone(),
            imports: vec![],
            decls: vec![],
            item: ItemM::Parcelable(ParcelableM {
                annos: vec![],
                name: "Pa".into(),
                members: vec![],
            }),
        },
        FileM {
            package: pkg,
            imports: vec![],
            decls: vec![],
            item: ItemM::Enum(EnumM {
                annos: vec![],
                name: "En".into(),
                elements: vec![EnumElM {
                    annos: vec![],
                    name: "A".into(),
                    value: None,
                }],
                trailing_comma: false,
            }),
        },
    ]
}

fn observed(item: ItemM) -> FileM {
    FileM {
        package: name("t"),
        imports: vec![
            vec!["p".into(), "If".into()],
            vec!["p".into(), "Pa".into()],
            vec!["p".into(), "En".into()],
            vec!["p".into(), "Unk".into()],
        ],
        decls: vec![DeclM {
            annos: vec![],
            name: name("Fw"),
        }],
        item,
    }
}

fn project_with(item: ItemM) -> ProjectM {
    let mut files = support_files();
    files.push(observed(item));
    ProjectM { files }
}

fn simple_method(nm: &str, oneway: bool, ret: TyM, args: Vec<ArgM>, code: Option<&str>) -> MethodM {
    MethodM {
        annos: vec![],
        oneway,
        ret,
        name: nm.to_owned(),
        args,
        trailing_comma: false,
        code: code.map(|c| c.to_owned()),
    }
}

fn a_const(nm: &str) -> ConstM {
    ConstM {
        annos: vec![],
        ty: TyM::Prim("int".into()),
        name: nm.to_owned(),
        value: ValueM::Lit(LitM {
            kind: LitKind::Int,
            text: "1".into(),
        }),
    }
}

// ---------------------------------------------------------------------------
// C07: 2 x 2 x 17 x 4 x 6 positions x named x annotated

const C07_POS: [(usize, usize); 6] = [(1, 0), (2, 0), (2, 1), (3, 0), (3, 1), (3, 2)];

fn c07_count() -> u64 {
    2 * 2 * 17 * 4 * 6 * 2 * 2
}

fn c07_case(mut idx: u64) -> (ProjectM, String) {
    let mut take = |n: u64| {
        let v = idx % n;
        idx /= n;
        v as usize
    };
    let annotated = take(2) == 1;
    let named = take(2) == 1;
    let (nargs, at) = C07_POS[take(6)];
    let dir = take(4);
    let cat = take(17);
    let method_oneway = take(2) == 1;
    let iface_oneway = take(2) == 1;
    let dirm = [None, Some(DirM::In), Some(DirM::Out), Some(DirM::InOut)][dir];
    let mut args = Vec::new();
    for j in 0..nargs {
        if j == at {
            args.push(ArgM {
                dir: dirm,
                annos: if annotated {
                    vec![AnnoM {
                        name: "@nullable".into(),
                        params: None,
                        trailing_comma: false,
                    }]
                } else {
                    vec![]
                },
                ty: category(cat),
                name: if named { Some("x".into()) } else { None },
            });
        } else {
            args.push(ArgM {
                dir: Some(DirM::In),
                annos: vec![],
                ty: TyM::Prim("int".into()),
                name: Some(format!("o{j}")),
            });
        }
    }
    let m = simple_method("f", method_oneway, TyM::Void, args, None);
    let label = format!(
        "cat={} dir={:?} method_oneway={method_oneway} iface_oneway={iface_oneway} pos={at}/{nargs} named={named} annotated={annotated}",
        CATEGORY_NAMES[cat], dirm
    );
    (
        project_with(ItemM::Interface(InterfaceM {
            annos: vec![],
            oneway: iface_oneway,
            name: "T".into(),
            members: vec![IMemberM::Method(m)],
        })),
        label,
    )
}

// ---------------------------------------------------------------------------
// C08: shapes x 4 positions, 8 shapes per file

const C08_BATCH: u64 = 8;

fn c08_levels(tier: Tier) -> (u64, u64) {
    // (fully enumerated shapes, sampled shapes of the next level)
    match tier {
        Tier::Quick => (shapes(1), 9_000),
        Tier::Thorough => (shapes(2), 0),
    }
}

fn c08_count(tier: Tier) -> u64 {
    let (full, sampled) = c08_levels(tier);
    4 * full.div_ceil(C08_BATCH) + sampled.div_ceil(C08_BATCH)
}

fn c08_item(position: usize, tys: Vec<TyM>) -> ItemM {
    match position {
        0 => ItemM::Parcelable(ParcelableM {
            annos: vec![],
            name: "T".into(),
            members: tys
                .into_iter()
                .enumerate()
                .map(|(i, t)| {
                    PMemberM::Field(FieldM {
                        annos: vec![],
                        ty: t,
                        name: format!("f{i}"),
                        value: None,
                    })
                })
                .collect(),
        }),
        1 => ItemM::Interface(InterfaceM {
            annos: vec![],
            oneway: false,
            name: "T".into(),
            members: tys
                .into_iter()
                .enumerate()
                .map(|(i, t)| {
                    IMemberM::Const(ConstM {
                        ty: t,
                        ..a_const(&format!("C{i}"))
                    })
                })
                .collect(),
        }),
        2 => ItemM::Interface(InterfaceM {
            annos: vec![],
            oneway: false,
            name: "T".into(),
            members: tys
                .into_iter()
                .enumerate()
                .map(|(i, t)| IMemberM::Method(simple_method(&format!("m{i}"), false, t, vec![], None)))
                .collect(),
        }),
        _ => ItemM::Interface(InterfaceM {
            annos: vec![],
            oneway: false,
            name: "T".into(),
            members: tys
                .into_iter()
                .enumerate()
                .map(|(i, t)| {
                    IMemberM::Method(simple_method(
                        &format!("m{i}"),
                        false,
                        TyM::Void,
                        vec![ArgM {
                            dir: Some(DirM::In),
                            annos: vec![],
                            ty: t,
                            name: Some("a".into()),
                        }],
                        None,
                    ))
                })
                .collect(),
        }),
    }
}

fn c08_case(tier: Tier, idx: u64) -> (ProjectM, String) {
    let (full, sampled) = c08_levels(tier);
    let level = if tier == Tier::Quick { 1 } else { 2 };
    let per_pos = full.div_ceil(C08_BATCH);
    if idx < 4 * per_pos {
        let pos = (idx / per_pos) as usize;
        let first = (idx % per_pos) * C08_BATCH;
        let tys: Vec<TyM> = (first..(first + C08_BATCH).min(full)).map(|k| shape(level, k)).collect();
        (project_with(c08_item(pos, tys)), format!("shapes {first}..+{C08_BATCH} of level<={level}, position {pos}"))
    } else {
        // deterministic sample of the next level
        let b = idx - 4 * per_pos;
        let space = shapes(level + 1);
        let mut tys = Vec::new();
        let pos = (b % 4) as usize;
        for k in 0..C08_BATCH.min(sampled - b * C08_BATCH) {
            let h = splitmix64(0xC08 ^ (b * C08_BATCH + k));
            // skip the part already enumerated: genuinely deeper shapes only
            let i = shapes(level) + h % (space - shapes(level));
            tys.push(shape(level + 1, i));
        }
        (project_with(c08_item(pos, tys)), format!("sampled level {} batch {b} position {pos}", level + 1))
    }
}

// ---------------------------------------------------------------------------
// C09: method sequences over 3 names x {no code, 3 codes}, constants interleaved

const C09_NAMES: [&str; 3] = ["a", "b", "c"];
const C09_CODES: [Option<&str>; 4] = [None, Some("1"), Some("2"), Some("007")];

fn c09_layout(tier: Tier) -> Vec<(usize, u64, u64)> {
    // (length, number of sequences, number of constant masks)
    let max_len = if tier == Tier::Quick { 4 } else { 5 };
    let const_len = if tier == Tier::Quick { 2 } else { 3 };
    (1..=max_len)
        .map(|l| {
            let seqs = 12u64.pow(l as u32);
            let masks = if l <= const_len { 1u64 << (l + 1) } else { 1 };
            (l, seqs, masks)
        })
        .collect()
}

const C09_WIDE: u64 = 8;

fn c09_count(tier: Tier) -> u64 {
    c09_layout(tier).iter().map(|(_, s, m)| s * m).sum::<u64>() + C09_WIDE
}

/// long method lists: a repeated name / code / the first code-less method far down the list
fn c09_wide(k: u64) -> (ProjectM, String) {
    let n = [255usize, 256, 257, 300][(k % 4) as usize];
    let variant = k / 4;
    let mut members = Vec::new();
    for i in 0..n {
        let nm = if i == n - 1 && variant == 0 { "m0".to_owned() } else { format!("m{i}") };
        let code = if variant == 1 && i == n - 1 { Some("5".to_owned()) } else { Some(format!("{i}")) };
        members.push(IMemberM::Method(MethodM {
            annos: vec![],
            oneway: false,
            ret: TyM::Void,
            name: nm,
            args: vec![],
            trailing_comma: false,
            code,
        }));
    }
    if variant == 1 {
        members.push(IMemberM::Method(simple_method("last", false, TyM::Void, vec![], None)));
    }
    (
        ProjectM {
            files: vec![observed(ItemM::Interface(InterfaceM {
                annos: vec![],
                oneway: false,
                name: "T".into(),
                members,
            }))],
        },
        format!("wide method list n={n} variant={variant}"),
    )
}

fn c09_case(tier: Tier, mut idx: u64) -> (ProjectM, String) {
    let main: u64 = c09_layout(tier).iter().map(|(_, s, m)| s * m).sum();
    if idx >= main {
        return c09_wide(idx - main);
    }
    for (l, seqs, masks) in c09_layout(tier) {
        let n = seqs * masks;
        if idx >= n {
            idx -= n;
            continue;
        }
        let mask = idx / seqs;
        let mut seq = idx % seqs;
        let mut members = Vec::new();
        let mut label = String::new();
        let mut cn = 0;
        for j in 0..l {
            if mask & (1 << j) != 0 {
                members.push(IMemberM::Const(a_const(&format!("K{cn}"))));
                cn += 1;
                label.push_str("const ");
            }
            let sym = (seq % 12) as usize;
            seq /= 12;
            let nm = C09_NAMES[sym % 3];
            let code = C09_CODES[sym / 3];
            label.push_str(&format!("{nm}{} ", code.map(|c| format!("={c}")).unwrap_or_default()));
            members.push(IMemberM::Method(simple_method(nm, false, TyM::Void, vec![], code)));
        }
        if mask & (1 << l) != 0 {
            members.push(IMemberM::Const(a_const(&format!("K{cn}"))));
            label.push_str("const");
        }
        return (
            ProjectM {
                files: vec![observed(ItemM::Interface(InterfaceM {
                    annos: vec![],
                    oneway: false,
                    name: "T".into(),
                    members,
                }))],
            },
            label,
        );
    }
    unreachable!("index out of range")
}

// ---------------------------------------------------------------------------
// C10: interface oneway x up to M methods x (method oneway x 17 return categories)

fn c10_max(tier: Tier) -> usize {
    if tier == Tier::Quick {
        2
    } else {
        3
    }
}

fn c10_count(tier: Tier) -> u64 {
    (1..=c10_max(tier)).map(|m| 2 * 34u64.pow(m as u32)).sum()
}

fn c10_case(tier: Tier, mut idx: u64) -> (ProjectM, String) {
    for m in 1..=c10_max(tier) {
        let n = 2 * 34u64.pow(m as u32);
        if idx >= n {
            idx -= n;
            continue;
        }
        let iface_oneway = idx % 2 == 1;
        let mut rest = idx / 2;
        let h = splitmix64(idx ^ 0xC10);
        let mut members = Vec::new();
        let mut label = format!("iface_oneway={iface_oneway}");
        for j in 0..m {
            if h & (1 << j) != 0 {
                members.push(IMemberM::Const(a_const(&format!("K{j}"))));
            }
            let opt = (rest % 34) as usize;
            rest /= 34;
            let oneway = opt % 2 == 1;
            let cat = opt / 2;
            label.push_str(&format!(" [{}{}]", if oneway { "oneway " } else { "" }, CATEGORY_NAMES[cat]));
            members.push(IMemberM::Method(simple_method(&format!("m{j}"), oneway, category(cat), vec![], None)));
        }
        return (
            project_with(ItemM::Interface(InterfaceM {
                annos: vec![],
                oneway: iface_oneway,
                name: "T".into(),
                members,
            })),
            label,
        );
    }
    unreachable!("index out of range")
}

// ---------------------------------------------------------------------------

// ---------------------------------------------------------------------------
// C05: references at nesting depth 5 .. 64 (resolution must reach any depth)

const C05_DEPTHS: [usize; 8] = [5, 9, 16, 31, 32, 33, 48, 64];

fn c05_count() -> u64 {
    (C05_DEPTHS.len() * 4) as u64
}

fn c05_case(idx: u64) -> (ProjectM, String) {
    let depth = C05_DEPTHS[(idx / 4) as usize];
    let wrap = idx % 4;
    let deep = |leaf: TyM| {
        let mut t = leaf;
        for level in 0..depth {
            t = match (wrap, level % 3) {
                (0, _) => TyM::List(Some(Box::new(t))),
                (1, _) => TyM::Map(Some(Box::new((TyM::Str, t)))),
                (2, 0) => TyM::List(Some(Box::new(t))),
                (2, 1) => TyM::Array(Box::new(t)),
                (2, _) => TyM::Map(Some(Box::new((TyM::Str, t)))),
                (_, 0) => TyM::Map(Some(Box::new((t, TyM::Str)))),
                (_, _) => TyM::List(Some(Box::new(t))),
            };
        }
        t
    };
    let members = vec![
        PMemberM::Field(FieldM {
            annos: vec![],
            ty: deep(TyM::Custom(name("Pa"))),
            name: "a".into(),
            value: None,
        }),
        PMemberM::Field(FieldM {
            annos: vec![],
            ty: deep(TyM::Custom(name("Nope"))),
            name: "b".into(),
            value: None,
        }),
        PMemberM::Field(FieldM {
            annos: vec![],
            ty: deep(TyM::Custom(name("Fw"))),
            name: "c".into(),
            value: None,
        }),
        PMemberM::Field(FieldM {
            annos: vec![],
            ty: deep(TyM::Custom(name("IBinder"))),
            name: "d".into(),
            value: None,
        }),
    ];
    (
        project_with(ItemM::Parcelable(ParcelableM {
            annos: vec![],
            name: "T".into(),
            members,
        })),
        format!("references at nesting depth {depth}, wrapper pattern {wrap}"),
    )
}

pub fn count(which: Which, tier: Tier) -> u64 {
    match which {
        Which::C05 | Which::C06 => c05_count(),
        Which::C07 => c07_count(),
        Which::C08 => c08_count(tier) + c05_count(),
        Which::C09 => c09_count(tier),
        Which::C10 => c10_count(tier),
        _ => 0,
    }
}

pub fn run(p: &ValProp, tier: Tier, idx: u64, st: &mut Stats) -> Result<(), Fail> {
    let (proj, label) = match p.which {
        Which::C05 | Which::C06 => c05_case(idx),
        Which::C07 => c07_case(idx),
        Which::C08 if idx >= c08_count(tier) => c05_case(idx - c08_count(tier)),
        Which::C08 => c08_case(tier, idx),
        Which::C09 => c09_case(tier, idx),
        Which::C10 => c10_case(tier, idx),
        _ => return Ok(()),
    };
    let mut s = Src::new(&[]);
    let case = ProjCase::from_project(proj.clone(), &mut s, &projcase::calm_layout())?;
    st.eval();
    st.class("enumerated");
    st.sample("enumerated", || json!({"idx": idx, "what": label, "observed_file": case.docs.last().map(|d| d.laid.text.clone())}));
    p.check_project(&case, st).map_err(|e| {
        let mut c = project_case_json(&proj, &case);
        if let serde_json::Value::Object(m) = &mut c {
            m.insert("enum_idx".into(), json!(idx));
            m.insert("what".into(), json!(label));
        }
        Fail::new(e, c)
    })
}

