//! C13 - a file's result depends only on its own text and on the kinds registered
//! under the keys it imports. Metamorphic: perturb the rest of the project.

use crate::core::*;
use crate::doccase::DocCase;
use crate::gen::{self, ProjectCfg};
use crate::imp;
use crate::model::*;
use crate::projcase::{self, ProjCase};
use crate::refval;
use crate::src::Src;
use serde_json::json;

pub struct C13;

#[derive(Debug, Clone, Copy, PartialEq, Eq)]
enum Pert {
    AddUnrelated,
    RemoveNotImported,
    RewriteOther,
    Reorder,
    DamageOther,
    ControlChangeKind,
    ControlRemoveImported,
}

fn file_key(f: &FileM) -> String {
    f.key()
}

fn import_keys(f: &FileM) -> Vec<String> {
    f.imports.iter().map(|i| i.join(".")).collect()
}

fn run(files: &[(String, String)], id: &str) -> Result<(Option<aidl_parser::ast::Aidl>, Vec<aidl_parser::diagnostic::Diagnostic>), String> {
    let mut out = imp::run_project(files)?;
    let r = out.valid.remove(id).ok_or("observed file missing from the results")?;
    Ok((r.ast, r.diagnostics))
}

impl Prop for C13 {
    fn id(&self) -> &'static str {
        "C13"
    }
    fn rule(&self) -> String {
        "case = generated project + observed file + one perturbation of the REST of the project: add a file whose key the observed file does not import; remove a file it does not import; rewrite body / imports / layout of another file keeping package, name and kind; reorder insertion. Oracle (metamorphic): the observed file's tree and diagnostics are equal before and after. Negative controls (counted separately): change the kind of / remove an imported file; when the reference validator's prediction for the observed file differs, the implementation's result must differ too. Projects with a key registered under several kinds are excluded. Non-trivial = the observed file imports a project-defined key and the perturbation touches a file it imports (or is a control); distinct by project text + perturbation.".into()
    }
    fn random_cases(&self, tier: Tier) -> u64 {
        tier.pick(16_000, 250_000)
    }
    fn max_bytes(&self) -> usize {
        4000
    }
    fn random(&self, _env: &Env, bytes: &[u8], st: &mut Stats) -> Result<(), Fail> {
        let mut s = Src::new(bytes);
        let mut pc = ProjectCfg::default();
        pc.gen.max_members = 3;
        let lc = projcase::calm_layout();
        let p = gen::project(&mut s, &pc);
        let case = ProjCase::from_project(p, &mut s, &lc)?;
        st.eval();
        if case.keys.values().any(|k| k.len() > 1) {
            st.discard("key registered under several kinds");
            return Ok(());
        }
        let n = case.docs.len();
        let obs = s.below(n);
        let obs_id = case.ids[obs].clone();
        let obs_imports = import_keys(&case.project.files[obs]);
        let imported_defined: Vec<usize> = (0..n)
            .filter(|j| *j != obs && obs_imports.contains(&file_key(&case.project.files[*j])))
            .collect();
        let not_imported: Vec<usize> = (0..n)
            .filter(|j| *j != obs && !obs_imports.contains(&file_key(&case.project.files[*j])))
            .collect();
        let pert = match s.weighted(&[3, 3, 6, 2, 3, 2, 2]) {
            0 => Pert::AddUnrelated,
            1 => Pert::RemoveNotImported,
            2 => Pert::RewriteOther,
            3 => Pert::Reorder,
            4 => Pert::DamageOther,
            5 => Pert::ControlChangeKind,
            _ => Pert::ControlRemoveImported,
        };
        let files1 = case.files();
        let mut files2 = files1.clone();
        let mut project2 = case.project.clone();
        let mut touches_imported = false;
        let mut control = false;
        match pert {
            Pert::AddUnrelated => {
                // a key of the universe the observed file does not import and nobody defines;
                // preferably one the observed file REFERS to by qualified name without importing it
                let mut found = None;
                let mut qualified_refs: Vec<Vec<String>> = Vec::new();
                case.project.files[obs].for_each_top_type(&mut |t, _| {
                    t.for_each(
                        &mut |x, _| {
                            if let TyM::Custom(n) = x {
                                if n.len() >= 2 {
                                    qualified_refs.push(n.clone());
                                }
                            }
                        },
                        0,
                    )
                });
                for d in &case.project.files[obs].decls {
                    if d.name.len() >= 2 {
                        qualified_refs.push(d.name.clone());
                    }
                }
                qualified_refs.retain(|n| {
                    let key = n.join(".");
                    !obs_imports.contains(&key) && !case.keys.contains_key(&key) && !key.starts_with("android.") && !key.starts_with("java.")
                });
                if !qualified_refs.is_empty() && s.chance(3, 4) {
                    let n = s.pick(&qualified_refs).clone();
                    found = Some((n[..n.len() - 1].to_vec(), n[n.len() - 1].clone()));
                    st.class("add-unrelated:qualified-reference-target");
                }
                for _ in 0..6 {
                    if found.is_some() {
                        break;
                    }
                    let pk = s.pick(gen::U_PKGS);
                    let nm = s.pick(gen::U_NAMES);
                    let key = format!("{}.{}", pk.join("."), nm);
                    if !obs_imports.contains(&key) && !case.keys.contains_key(&key) {
                        found = Some((pk.iter().map(|x| (*x).to_owned()).collect::<Vec<_>>(), (*nm).to_owned()));
                        break;
                    }
                }
                let Some((pkg, nm)) = found else {
                    st.discard("no unrelated key available");
                    return Ok(());
                };
                let kind = s.below(3);
                let f = FileM {
                    package: pkg,
                    imports: vec![],
                    decls: vec![],
                    item: gen::item(&mut s, &pc.gen, nm, kind),
                };
                let d = DocCase::from_model(f.clone(), &mut s, &lc)?;
                files2.push(("extra".to_owned(), d.laid.text));
                project2.files.push(f);
            }
            Pert::RemoveNotImported => {
                if not_imported.is_empty() {
                    st.discard("no non-imported file to remove");
                    return Ok(());
                }
                let j = *s.pick(&not_imported);
                // removing it must not change whether its key is registered for the observed
                // file: it is not imported, so irrelevant
                files2.retain(|f| f.0 != case.ids[j]);
            }
            Pert::RewriteOther => {
                if n < 2 {
                    st.discard("single-file project");
                    return Ok(());
                }
                let mut j = s.below(n - 1);
                if j >= obs {
                    j += 1;
                }
                touches_imported = imported_defined.contains(&j);
                let old = &case.project.files[j];
                let kind = match old.item {
                    ItemM::Interface(_) => 0,
                    ItemM::Parcelable(_) => 1,
                    ItemM::Enum(_) => 2,
                };
                let mut g = pc.gen.clone();
                g.type_names = Some(vec![vec!["Foo".into()], vec!["Nope".into()], vec!["IBinder".into()]]);
                let f = FileM {
                    package: old.package.clone(),
                    imports: if s.flip() { vec![] } else { old.imports.clone() },
                    decls: vec![],
                    item: gen::item(&mut s, &g, old.item.name().to_owned(), kind),
                };
                let d = DocCase::from_model(f, &mut s, &crate::gen::LayoutCfg::default())?;
                files2[j].1 = d.laid.text;
            }
            Pert::DamageOther => {
                // another file gets one malformed member (ending at its terminator): it keeps
                // its tree, package, name and kind
                if n < 2 {
                    st.discard("single-file project");
                    return Ok(());
                }
                let mut j = if !imported_defined.is_empty() && s.chance(3, 4) {
                    *s.pick(&imported_defined)
                } else {
                    s.below(n - 1)
                };
                if j >= obs && !imported_defined.contains(&j) {
                    j = (j + 1).min(n - 1);
                }
                if j == obs {
                    st.discard("single-file project");
                    return Ok(());
                }
                touches_imported = imported_defined.contains(&j);
                let mut c2 = ProjCase::from_project(case.project.clone(), &mut Src::new(&[]), &lc)?;
                c2.damage(j);
                let damaged_text = c2.files()[j].1.clone();
                // keep the original layout of every other file
                files2[j].1 = {
                    let d = &case.docs[j];
                    let close = d.laid.spans[d.rendered.body_close].0;
                    let plain = &c2.docs[j];
                    let pclose = plain.laid.spans[plain.rendered.body_close].0;
                    let garbage_len = damaged_text.len() - plain.laid.text.len();
                    let garbage = &damaged_text[pclose..pclose + garbage_len];
                    let mut t = d.laid.text.clone();
                    t.insert_str(close, garbage);
                    t
                };
            }
            Pert::Reorder => {
                let k = files2.len();
                for i in (1..k).rev() {
                    let r = s.below(i + 1);
                    files2.swap(i, r);
                }
            }
            Pert::ControlChangeKind | Pert::ControlRemoveImported => {
                control = true;
                if imported_defined.is_empty() {
                    st.discard("control: observed file imports no project-defined key");
                    return Ok(());
                }
                let j = *s.pick(&imported_defined);
                if pert == Pert::ControlRemoveImported {
                    files2.retain(|f| f.0 != case.ids[j]);
                    project2.files.remove(j);
                } else {
                    let old = &case.project.files[j];
                    let kind = match old.item {
                        ItemM::Interface(_) => 1,
                        ItemM::Parcelable(_) => 2,
                        ItemM::Enum(_) => 0,
                    };
                    let f = FileM {
                        package: old.package.clone(),
                        imports: vec![],
                        decls: vec![],
                        item: gen::item(&mut Src::new(&[]), &pc.gen, old.item.name().to_owned(), kind),
                    };
                    let d = DocCase::plain(f.clone())?;
                    files2[j].1 = d.laid.text;
                    project2.files[j] = f;
                }
            }
        }
        st.class(&format!("perturbation:{pert:?}"));
        let case_json = || bytes_case(bytes, json!({"observed": obs_id, "perturbation": format!("{pert:?}"), "before": super::c01::files_json(&files1), "after": super::c01::files_json(&files2)}));
        st.sample(&format!("{pert:?}"), || json!({"observed": obs_id, "before": super::c01::files_json(&files1), "after": super::c01::files_json(&files2)}));
        let r1 = run(&files1, &obs_id).map_err(|e| Fail::new(e, case_json()))?;
        let r2 = run(&files2, &obs_id).map_err(|e| Fail::new(e, case_json()))?;
        let mut key = Vec::new();
        for f in files1.iter().chain(files2.iter()) {
            key.extend_from_slice(f.1.as_bytes());
            key.push(0);
        }
        if !control {
            if (touches_imported || !matches!(pert, Pert::RewriteOther | Pert::DamageOther)) && !imported_defined.is_empty() {
                st.nontrivial(&key);
            }
            if r1.0 != r2.0 {
                let d = match (&r1.0, &r2.0) {
                    (Some(a), Some(b)) => crate::astvisit::first_diff(a, b),
                    _ => "tree present / absent".into(),
                };
                return Err(Fail::new(format!("observed file {obs_id}: tree changed after {pert:?}: {d}"), case_json()));
            }
            if r1.1 != r2.1 {
                let show = |ds: &[aidl_parser::diagnostic::Diagnostic]| ds.iter().map(crate::cmp::describe).collect::<Vec<_>>().join(" | ");
                return Err(Fail::new(
                    format!("observed file {obs_id}: diagnostics changed after {pert:?}:\n   before: {}\n   after:  {}", show(&r1.1), show(&r2.1)),
                    case_json(),
                ));
            }
        } else {
            // control: when the reference prediction changes, the result must change
            let keys1 = case.keys.clone();
            let docs2: Vec<DocCase> = project2.files.iter().map(|f| DocCase::plain(f.clone())).collect::<Result<_, _>>()?;
            let keys2 = refval::keys_of(docs2.iter().map(|d| &d.expected));
            let e1 = refval::validate_ref(&case.docs[obs].expected, &keys1);
            let e2 = refval::validate_ref(&case.docs[obs].expected, &keys2);
            if let (Ok(e1), Ok(e2)) = (e1, e2) {
                let sig = |r: &refval::RefOut| {
                    let mut d: Vec<String> = r.diags.iter().map(|x| format!("{:?}{:?}{}{}", x.class, x.kind, x.range.start.offset, x.range.end.offset)).collect();
                    d.sort();
                    (crate::astvisit::all_types(&r.tree).into_iter().map(|t| format!("{:?}", t.1.kind)).collect::<Vec<_>>(), d)
                };
                if sig(&e1) != sig(&e2) {
                    st.class("control:prediction-changed");
                    st.nontrivial(&key);
                    if r1.0 == r2.0 && r1.1 == r2.1 {
                        return Err(Fail::new(
                            format!("negative control {pert:?}: the kind registered under an imported key changed, the reference predicts a different result, but the observed file {obs_id}'s result did not change"),
                            case_json(),
                        ));
                    }
                } else {
                    st.class("control:prediction-unchanged");
                }
            } else {
                st.discard("control: don't-care corner");
            }
        }
        Ok(())
    }
}
