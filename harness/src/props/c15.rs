//! C15 - traversal visits every node once, in order; filter and find agree with it.

use crate::core::*;
use crate::doccase;
use crate::gen::{GenCfg, LayoutCfg};
use crate::imp;
use crate::reftrav::{self, sym_id, Level, KIND_NAMES};
use crate::src::Src;
use aidl_parser::ast;
use aidl_parser::symbol::Symbol;
use aidl_parser::traverse::{self, SymbolFilter};
use serde_json::json;

pub struct C15;

fn filter_of(l: Level) -> SymbolFilter {
    match l {
        Level::ItemsOnly => SymbolFilter::ItemsOnly,
        Level::ItemsAndItemElements => SymbolFilter::ItemsAndItemElements,
        Level::All => SymbolFilter::All,
    }
}

fn show(s: &Symbol) -> String {
    format!("{}({})", KIND_NAMES[sym_id(s).0 as usize], s.get_name().unwrap_or_default())
}

fn show_seq(v: &[Symbol]) -> String {
    v.iter().map(show).collect::<Vec<_>>().join(" ")
}

pub fn check_tree(a: &ast::Aidl) -> Result<usize, String> {
    let mut checks = 0;
    for level in [Level::All, Level::ItemsAndItemElements, Level::ItemsOnly] {
        let exp = reftrav::expected_symbols(a, level);
        let exp_ids: Vec<(u8, usize)> = exp.iter().map(sym_id).collect();
        // walk_symbols
        let got = imp::guarded(|| {
            let mut v = Vec::new();
            traverse::walk_symbols(a, filter_of(level), |s| v.push(s));
            v
        })?;
        let got_ids: Vec<(u8, usize)> = got.iter().map(sym_id).collect();
        if got_ids != exp_ids {
            return Err(format!(
                "walk_symbols at level {level:?}: expected sequence [{}] but visited [{}]",
                show_seq(&exp),
                show_seq(&got)
            ));
        }
        checks += 1;
        // predicates
        let mut names: Vec<String> = exp.iter().filter_map(|s| s.get_name()).collect();
        names.sort();
        names.dedup();
        names.push("no_such_name_anywhere".to_owned());
        let mut preds: Vec<(String, Box<dyn Fn(&Symbol) -> bool>)> = Vec::new();
        for (k, id) in exp_ids.iter().enumerate() {
            let id = *id;
            preds.push((format!("is the {k}-th visited symbol"), Box::new(move |s| sym_id(s) == id)));
        }
        for (ki, kn) in KIND_NAMES.iter().enumerate() {
            preds.push((format!("is of kind {kn}"), Box::new(move |s| sym_id(s).0 as usize == ki)));
        }
        for n in names {
            let n2 = n.clone();
            preds.push((format!("name equals {n}"), Box::new(move |s| s.get_name().as_deref() == Some(n2.as_str()))));
        }
        for (desc, p) in &preds {
            let want: Vec<(u8, usize)> = exp.iter().filter(|s| p(s)).map(sym_id).collect();
            let (filtered, found) = imp::guarded(|| {
                (
                    traverse::filter_symbols(a, filter_of(level), |s| p(s)),
                    traverse::find_symbol(a, filter_of(level), |s| p(s)),
                )
            })?;
            let f_ids: Vec<(u8, usize)> = filtered.iter().map(sym_id).collect();
            if f_ids != want {
                return Err(format!(
                    "filter_symbols at level {level:?} with predicate `{desc}`: expected {} symbols, got [{}]",
                    want.len(),
                    show_seq(&filtered)
                ));
            }
            let found_id = found.as_ref().map(sym_id);
            if found_id != want.first().copied() {
                return Err(format!(
                    "find_symbol at level {level:?} with predicate `{desc}`: expected {:?}, got {:?}",
                    exp.iter().find(|s| p(s)).map(show),
                    found.as_ref().map(show)
                ));
            }
            checks += 2;
        }
    }
    // walk_types: every type exactly once, non-decreasing start offsets of full ranges
    let exp_t: Vec<usize> = reftrav::expected_types(a).iter().map(|t| *t as *const _ as usize).collect();
    let got_t = imp::guarded(|| {
        let mut v: Vec<(usize, usize, bool)> = Vec::new();
        traverse::walk_types(a, |t| v.push((t as *const _ as usize, t.full_range.start.offset, t.kind == ast::TypeKind::Array)));
        v
    })?;
    let mut g: Vec<usize> = got_t.iter().map(|x| x.0).collect();
    let mut e = exp_t.clone();
    g.sort();
    e.sort();
    if g != e {
        return Err(format!("walk_types delivered {} type nodes, the tree has {} (each must come exactly once)", got_t.len(), exp_t.len()));
    }
    // source order: an array shares its first token with its element and may come before
    // or after it, so arrays are left out of the order comparison
    let non_arrays: Vec<usize> = got_t.iter().filter(|x| !x.2).map(|x| x.1).collect();
    if non_arrays.windows(2).any(|w| w[0] > w[1]) {
        return Err("walk_types does not deliver types in source order".into());
    }
    // walk_methods / walk_args
    let exp_m: Vec<usize> = reftrav::expected_methods(a).iter().map(|m| *m as *const _ as usize).collect();
    let got_m = imp::guarded(|| {
        let mut v = Vec::new();
        traverse::walk_methods(a, |m| v.push(m as *const _ as usize));
        v
    })?;
    if got_m != exp_m {
        return Err(format!("walk_methods delivered {} methods, expected {} in source order", got_m.len(), exp_m.len()));
    }
    let mut exp_a = Vec::new();
    for m in reftrav::expected_methods(a) {
        for arg in &m.args {
            exp_a.push((m as *const _ as usize, arg as *const _ as usize));
        }
    }
    let got_a = imp::guarded(|| {
        let mut v = Vec::new();
        traverse::walk_args(a, |m, arg| v.push((m as *const _ as usize, arg as *const _ as usize)));
        v
    })?;
    if got_a != exp_a {
        return Err(format!("walk_args delivered {} (method, argument) pairs, expected {} in source order", got_a.len(), exp_a.len()));
    }
    Ok(checks + 3)
}

fn max_type_depth(a: &ast::Aidl) -> usize {
    fn d(t: &ast::Type) -> usize {
        t.generic_types.iter().map(|g| 1 + d(g)).max().unwrap_or(0)
    }
    reftrav::expected_types(a).iter().map(|t| d(t)).max().unwrap_or(0)
}

impl Prop for C15 {
    fn id(&self) -> &'static str {
        "C15"
    }
    fn rule(&self) -> String {
        "case = validated tree of a generated document (all item kinds, member mixes, types nested to depth 4, unnamed arguments, empty bodies). Oracle: reference traversal computed from the returned tree by an independent walker (package, imports, item, members; method: return type then each argument followed by its type; constant / field then type; type = itself then its parameters recursively, array = element subtree first). walk_symbols at the three levels must deliver exactly that sequence (identity = variant + node address); filter_symbols(p) the satisfying sub-sequence and find_symbol(p) its first element for p in {is the k-th visited symbol (every k), is of kind K (11 kinds), name equals N (every name + an absent one)}; walk_types every type node once in source order; walk_methods / walk_args all methods / (method, argument) pairs in order. Non-trivial = tree with a type of depth >= 2 and a method with arguments; distinct by text.".into()
    }
    fn random_cases(&self, tier: Tier) -> u64 {
        tier.pick(30_000, 300_000)
    }
    fn max_bytes(&self) -> usize {
        2000
    }
    fn enum_count(&self, _tier: Tier) -> u64 {
        14
    }
    fn enum_case(&self, _env: &Env, idx: u64, st: &mut Stats) -> Result<(), Fail> {
        // wide trees (100 / 300 members, arguments, imports ...): sizes 100 and 300 only, the
        // predicate families are quadratic in the number of symbols
        let (m, what) = super::c02::wide_case((idx / 2) * 5 + if idx % 2 == 0 { 0 } else { 4 });
        let d = crate::doccase::DocCase::plain(m)?;
        st.eval();
        st.class("wide-tree");
        let case = || json!({"kind": "enum", "idx": idx, "what": what});
        let (_, v) = imp::run_one(&d.laid.text).map_err(|e| Fail::new(e, case()))?;
        let tree = v.ast.ok_or_else(|| Fail::new("no tree for a well-formed document", case()))?;
        st.nontrivial(d.laid.text.as_bytes());
        check_tree(&tree).map(|_| ()).map_err(|e| Fail::new(e, case()))
    }
    fn random(&self, _env: &Env, bytes: &[u8], st: &mut Stats) -> Result<(), Fail> {
        let mut s = Src::new(bytes);
        let cfg = GenCfg::default();
        if s.chance(1, 5) {
            // a tree that survived error recovery (one malformed member injected)
            let inj = super::c14::gen_case(&mut s);
            st.eval();
            st.class("recovered-tree");
            let case = || bytes_case(bytes, json!({"text": inj.text}));
            let (p, v) = imp::run_one(&inj.text).map_err(|e| Fail::new(e, case()))?;
            for t in [p.ast, v.ast].into_iter().flatten() {
                let n = check_tree(&t).map_err(|e| Fail::new(e, case()))?;
                st.add("traversal_checks", n as u64);
            }
            return Ok(());
        }
        let d = doccase::gen_doc(&mut s, &cfg, &LayoutCfg::default())?;
        st.eval();
        let case = || bytes_case(bytes, json!({"text": d.laid.text}));
        let (_, v) = imp::run_one(&d.laid.text).map_err(|e| Fail::new(e, case()))?;
        let tree = v.ast.ok_or_else(|| Fail::new("no tree for a well-formed document", case()))?;
        let depth = max_type_depth(&tree);
        let has_args = reftrav::expected_methods(&tree).iter().any(|m| !m.args.is_empty());
        st.class(&format!("type-depth:{depth}"));
        st.class(&format!("item:{}", d.model.item.kind_str()));
        if depth >= 2 && has_args {
            st.nontrivial(d.laid.text.as_bytes());
        }
        st.sample(d.model.item.kind_str(), || json!({"text": d.laid.text}));
        let n = check_tree(&tree).map_err(|e| Fail::new(e, case()))?;
        st.add("traversal_checks", n as u64);
        Ok(())
    }
    fn replay_other(&self, _env: &Env, case: &serde_json::Value, st: &mut Stats) -> Result<(), Fail> {
        if case.get("kind").and_then(|k| k.as_str()) == Some("text") {
            let text = case["text"].as_str().unwrap_or("");
            st.eval();
            let (_, v) = imp::run_one(text).map_err(|e| Fail::new(e, case.clone()))?;
            if let Some(t) = v.ast {
                check_tree(&t).map_err(|e| Fail::new(e, case.clone()))?;
            }
            return Ok(());
        }
        Err(Fail::harness("unknown case kind"))
    }
}
