//! C18 - documentation is taken from the directly preceding doc comment, verbatim.

use crate::astvisit;
use crate::core::*;
use crate::doccase::DocCase;
use crate::gen::{self, GenCfg};
use crate::imp;
use crate::render;
use crate::src::Src;
use serde_json::json;

pub struct C18;

#[derive(Clone, Debug)]
enum DocTok {
    Word(String),
    Tag(String),
}

#[derive(Clone, Debug)]
struct DocM {
    paras: Vec<Vec<Vec<DocTok>>>,
}

const W_ASCII: &[&str] = &["hello", "x", "foo_bar", "42", "it's", "(see)", "a.b", "Returns", "the", "value;", "{code}", "\"q\"", "-", "e.g.", "#1"];
const W_ACCENT: &[&str] = &["Gr\u{f6}\u{df}e", "caf\u{e9}", "na\u{ef}ve", "\u{e9}", "\u{dc}ber", "e\u{0301}t\u{e9}"];
const W_CJK: &[&str] = &["\u{65e5}\u{672c}\u{8a9e}", "\u{30c6}\u{30ad}\u{30b9}\u{30c8}", "\u{4e2d}\u{6587}", "\u{d55c}\u{ae00}"];
const W_EMOJI: &[&str] = &["\u{1F600}", "\u{1F468}\u{200D}\u{1F469}\u{200D}\u{1F467}", "\u{1F1E9}\u{1F1EA}", "\u{2764}\u{FE0F}"];
const TAGS: &[&str] = &["@param", "@return", "@deprecated", "@see", "@hide"];

fn word(s: &mut Src) -> String {
    match s.weighted(&[6, 2, 2, 1]) {
        0 => (*s.pick(W_ASCII)).to_owned(),
        1 => (*s.pick(W_ACCENT)).to_owned(),
        2 => (*s.pick(W_CJK)).to_owned(),
        _ => (*s.pick(W_EMOJI)).to_owned(),
    }
}

fn doc_model(s: &mut Src) -> DocM {
    let np = 1 + s.weighted(&[6, 2, 1]);
    let mut paras = Vec::new();
    for _ in 0..np {
        let nl = 1 + s.weighted(&[5, 3, 1]);
        let mut lines = Vec::new();
        for _ in 0..nl {
            let nt = 1 + s.below(4);
            let mut toks = Vec::new();
            for _ in 0..nt {
                if s.chance(1, 6) {
                    toks.push(DocTok::Tag((*s.pick(TAGS)).to_owned()));
                } else {
                    toks.push(DocTok::Word(word(s)));
                }
            }
            lines.push(toks);
        }
        paras.push(lines);
    }
    DocM { paras }
}

fn expected_doc(d: &DocM) -> String {
    let mut ps = Vec::new();
    for p in &d.paras {
        let mut out = String::new();
        let mut first = true;
        for l in p {
            for t in l {
                match t {
                    DocTok::Word(w) => {
                        if !first {
                            out.push(' ');
                        }
                        out.push_str(w);
                    }
                    DocTok::Tag(t) => {
                        if !first {
                            out.push('\n');
                        }
                        out.push_str(t);
                    }
                }
                first = false;
            }
        }
        ps.push(out);
    }
    ps.join("\n")
}

/// a line as written: tokens joined by one space, sometimes followed by trailing blanks
fn line_text_ws(s: &mut Src, l: &[DocTok]) -> String {
    let mut t = line_text(l);
    match s.weighted(&[10, 2, 1]) {
        0 => {}
        1 => t.push_str("  "),
        _ => t.push('\t'),
    }
    t
}

fn line_text(l: &[DocTok]) -> String {
    l.iter()
        .map(|t| match t {
            DocTok::Word(w) => w.clone(),
            DocTok::Tag(t) => t.clone(),
        })
        .collect::<Vec<_>>()
        .join(" ")
}

fn render_doc(s: &mut Src, d: &DocM) -> (String, &'static str) {
    let single = d.paras.len() == 1 && d.paras[0].len() == 1;
    let style = if single && s.chance(1, 2) { 0 } else { 1 + s.below(4) };
    let nl = if style == 4 || s.chance(1, 5) { "\r\n" } else { "\n" };
    match style {
        0 => {
            let l = line_text(&d.paras[0][0]);
            if s.flip() {
                (format!("/** {l} */"), "one-line")
            } else {
                (format!("/**{l}*/"), "one-line-tight")
            }
        }
        1 | 4 => {
            // star-prefixed
            let mut t = String::from("/**");
            let first_on_opener = s.chance(1, 4);
            let mut first = true;
            for (pi, p) in d.paras.iter().enumerate() {
                if pi > 0 {
                    t.push_str(nl);
                    t.push_str(" *");
                }
                for l in p {
                    if first && first_on_opener {
                        t.push(' ');
                    } else {
                        t.push_str(nl);
                        t.push_str(" * ");
                    }
                    first = false;
                    t.push_str(&line_text_ws(s, l));
                }
            }
            t.push_str(nl);
            t.push_str(" */");
            (t, if nl == "\r\n" { "star-prefixed-crlf" } else { "star-prefixed" })
        }
        2 => {
            // bare indented
            let mut t = String::from("/**");
            for (pi, p) in d.paras.iter().enumerate() {
                if pi > 0 {
                    t.push_str(nl);
                }
                for l in p {
                    t.push_str(nl);
                    t.push_str("    ");
                    t.push_str(&line_text_ws(s, l));
                }
            }
            t.push_str(nl);
            t.push_str("*/");
            (t, "bare-indented")
        }
        _ => {
            // tab-indented, with stars
            let mut t = String::from("/**");
            for (pi, p) in d.paras.iter().enumerate() {
                if pi > 0 {
                    t.push_str(nl);
                    t.push_str("\t*");
                }
                for l in p {
                    t.push_str(nl);
                    t.push_str("\t*\t");
                    t.push_str(&line_text_ws(s, l));
                }
            }
            t.push_str(nl);
            t.push_str("\t*/");
            (t, "tab-indented")
        }
    }
}

fn ws(s: &mut Src) -> String {
    let n = 1 + s.below(3);
    let mut t = String::new();
    for _ in 0..n {
        t.push_str(match s.weighted(&[5, 3, 1, 1]) {
            0 => " ",
            1 => "\n",
            2 => "\t",
            _ => "\r\n",
        });
    }
    t
}

fn ordinary_comment(s: &mut Src) -> String {
    let n = 1 + s.below(3);
    let words: Vec<String> = (0..n).map(|_| word(s).replace('*', "").replace('/', "")).collect();
    if s.chance(1, 6) {
        // empty / blank line comment, empty block comment
        return match s.below(4) {
            0 => "//\n".to_owned(),
            1 => "// \n".to_owned(),
            2 => "//\r\n".to_owned(),
            _ => "/* */".to_owned(),
        };
    }
    if s.flip() {
        format!("/* {} */", words.join(" "))
    } else {
        format!("// {}{}", words.join(" "), if s.flip() { "\n" } else { "\r\n" })
    }
}

const SITUATIONS: &[&str] = &["none", "ordinary-only", "doc", "doc+ordinary", "two-docs"];

/// gap text + expected doc
fn situation(s: &mut Src, st: &mut Stats) -> (String, Option<String>, usize, bool) {
    let sit = s.weighted(&[4, 2, 6, 3, 2]);
    let mut interesting = sit != 2;
    let mut mk_doc = |s: &mut Src, st: &mut Stats| {
        let d = doc_model(s);
        let (text, style) = render_doc(s, &d);
        st.class(&format!("style:{style}"));
        let e = expected_doc(&d);
        let multi = d.paras.len() > 1 || d.paras[0].len() > 1;
        let tag = d.paras.iter().flatten().flatten().any(|t| matches!(t, DocTok::Tag(_)));
        (text, e, multi || tag)
    };
    let (text, exp) = match sit {
        0 => (ws(s), None),
        1 => {
            let mut t = ws(s);
            t.push_str(&ordinary_comment(s));
            t.push_str(&ws(s));
            (t, None)
        }
        2 => {
            let (d, e, i) = mk_doc(s, st);
            interesting |= i || !e.is_ascii();
            (format!("{}{}{}", ws(s), d, if s.chance(1, 6) { String::new() } else { ws(s) }), Some(e))
        }
        3 => {
            let (d, e, _) = mk_doc(s, st);
            let mut t = format!("{}{}{}", ws(s), d, ws(s));
            for _ in 0..1 + s.below(2) {
                t.push_str(&ordinary_comment(s));
                t.push_str(&ws(s));
            }
            (t, Some(e))
        }
        _ => {
            let (d1, _, _) = mk_doc(s, st);
            let (d2, e2, _) = mk_doc(s, st);
            (format!("{}{}{}{}{}", ws(s), d1, ws(s), d2, ws(s)), Some(e2))
        }
    };
    (text, exp, sit, interesting)
}

impl Prop for C18 {
    fn id(&self) -> &'static str {
        "C18"
    }
    fn rule(&self) -> String {
        "case = generated document in which EVERY documentable construct (item, method, argument, constant, field, enum element) gets one of five situations in front of it (before its annotations): nothing / ordinary comment only / doc comment / doc comment followed by ordinary block and line comments / two doc comments. Doc texts = 1-3 paragraphs x 1-3 lines x 1-4 tokens (ASCII, accented, CJK, emoji incl. ZWJ words; @tag clauses at line start or mid-line), rendered one-line, star-prefixed, bare-indented, tab-indented, LF or CRLF. Oracle: expected doc = paragraphs joined by LF, lines of a paragraph joined by one space, each @tag clause on its own line, words byte-identical; None in the negative situations; the doc of EVERY construct is compared (so a comment can never attach elsewhere). Non-trivial = some construct has a multi-line / tagged / non-ASCII doc or a negative situation; distinct by text.".into()
    }
    fn assumptions(&self) -> Vec<String> {
        vec!["outside the stated domain nothing is asserted: Unicode whitespace between comment and construct, '/' or '*' inside intervening comments, doc comments between annotations and construct, `/***/`".into()]
    }
    fn random_cases(&self, tier: Tier) -> u64 {
        tier.pick(40_000, 400_000)
    }
    fn max_bytes(&self) -> usize {
        3000
    }
    fn random(&self, _env: &Env, bytes: &[u8], st: &mut Stats) -> Result<(), Fail> {
        let mut s = Src::new(bytes);
        let cfg = GenCfg {
            max_members: 4,
            max_args: 3,
            max_depth: 2,
            ..GenCfg::default()
        };
        let m = gen::file(&mut s, &cfg);
        let r = render::render(&m);
        let mut gaps: Vec<String> = (0..=r.toks.len())
            .map(|i| if i == 0 { String::new() } else if s.chance(1, 6) { "\n".to_owned() } else { " ".to_owned() })
            .collect();
        let mut expected: Vec<(String, Option<String>)> = Vec::new();
        let mut interesting = false;
        for slot in &r.doc_slots {
            let (text, exp, sit, i) = situation(&mut s, st);
            st.class(&format!("situation:{}", SITUATIONS[sit]));
            interesting |= i;
            gaps[slot.first_tok] = text;
            expected.push((slot.node.path(), exp));
        }
        let d = DocCase::build(m, r, &gaps)?;
        st.eval();
        let text = &d.laid.text;
        let case = || bytes_case(bytes, json!({"text": text}));
        if interesting {
            st.nontrivial(text.as_bytes());
        }
        st.sample("doc", || json!({"text": text, "expected_docs": expected.iter().map(|e| json!([e.0, e.1])).collect::<Vec<_>>()}));
        let (_, v) = imp::run_one(text).map_err(|e| Fail::new(e, case()))?;
        let tree = v.ast.ok_or_else(|| Fail::new("no tree for a well-formed document", case()))?;
        let actual = astvisit::all_docs(&tree);
        if actual.len() != expected.len() {
            return Err(Fail::new(
                format!("tree has {} documentable constructs, the model has {}", actual.len(), expected.len()),
                case(),
            ));
        }
        let mut exp_sorted = expected.clone();
        exp_sorted.sort_by(|a, b| a.0.cmp(&b.0));
        let mut act_sorted = actual.clone();
        act_sorted.sort_by(|a, b| a.0.cmp(&b.0));
        for ((pe, de), (pa, da)) in exp_sorted.iter().zip(act_sorted.iter()) {
            if pe != pa {
                return Err(Fail::new(format!("doc path mismatch {pe} vs {pa}"), case()));
            }
            st.add("docs_compared", 1);
            if de != da {
                return Err(Fail::new(format!("{pe}: expected doc {de:?}, actual {da:?}"), case()));
            }
        }
        Ok(())
    }
    fn replay_other(&self, _env: &Env, case: &serde_json::Value, st: &mut Stats) -> Result<(), Fail> {
        // {"kind":"docs","text":..., "expected":[[path, doc|null],...]}
        if case.get("kind").and_then(|k| k.as_str()) == Some("docs") {
            let text = case["text"].as_str().unwrap_or("");
            st.eval();
            let (_, v) = imp::run_one(text).map_err(|e| Fail::new(e, case.clone()))?;
            let tree = v.ast.ok_or_else(|| Fail::new("no tree", case.clone()))?;
            let actual = astvisit::all_docs(&tree);
            for e in case["expected"].as_array().cloned().unwrap_or_default() {
                let path = e[0].as_str().unwrap_or("");
                let want = e[1].as_str().map(|x| x.to_owned());
                let got = actual.iter().find(|a| a.0 == path).map(|a| a.1.clone());
                if got != Some(want.clone()) {
                    return Err(Fail::new(format!("{path}: expected doc {want:?}, actual {got:?}"), case.clone()));
                }
            }
            return Ok(());
        }
        Err(Fail::harness("unknown case kind"))
    }
}
