//! C14 - a malformed member costs only itself: siblings survive, the error is local.

use crate::astvisit::Mask;
use crate::cmp;
use crate::core::*;
use crate::gen::{self, GenCfg};
use crate::imp;
use crate::model::*;
use crate::mutate;
use crate::refgram::{text_verdict, TextVerdict};
use crate::render;
use crate::src::Src;
use crate::tok::{ALL_KINDS, K};
use aidl_parser::ast;
use aidl_parser::diagnostic::DiagnosticKind;
use serde_json::{json, Value};

pub struct C14;

pub struct Injected {
    pub text: String,
    pub ext_start: usize,
    pub ext_end: usize,
    /// token indices (in the injected text) of the first injected token and of the terminator
    pub tok_first: usize,
    pub tok_term: usize,
    pub garbage: Vec<String>,
    pub before: usize,
    pub after: usize,
    pub kind: &'static str,
    /// expected tree of the document WITHOUT the injected member (placeholder ranges)
    pub expected: ast::Aidl,
}

fn garbage_token(s: &mut Src, is_enum: bool) -> String {
    loop {
        let t = if s.chance(2, 3) {
            s.pick(&ALL_KINDS).repr().to_owned()
        } else {
            mutate::clean_vocab_token(s)
        };
        if t == ";" || t == "{" || t == "}" || (is_enum && t == ",") {
            continue;
        }
        return t;
    }
}

pub fn gen_case(s: &mut Src) -> Injected {
    let cfg = GenCfg {
        max_members: 6,
        max_args: 2,
        max_depth: 2,
        ..GenCfg::default()
    };
    let mut m = gen::file(s, &cfg);
    let n = match &m.item {
        ItemM::Interface(i) => i.members.len(),
        ItemM::Parcelable(p) => p.members.len(),
        ItemM::Enum(e) => e.elements.len(),
    };
    let k = s.below(n + 1);
    let is_enum = matches!(m.item, ItemM::Enum(_));
    if let ItemM::Enum(e) = &mut m.item {
        if k == n && n > 0 {
            e.trailing_comma = true; // the element before the injection keeps its separator
        }
    }
    let r = render::render(&m);
    let ins = if k < n { r.members[k].first_tok } else { r.body_close };
    let ng = s.below(9);
    let garbage: Vec<String> = (0..ng).map(|_| garbage_token(s, is_enum)).collect();
    let term = if is_enum { "," } else { ";" };
    let mut toks: Vec<String> = r.toks.iter().map(|t| t.text.clone()).collect();
    let mut injected = garbage.clone();
    injected.push(term.to_owned());
    for (j, t) in injected.iter().enumerate() {
        toks.insert(ins + j, t.clone());
    }
    // layout: single spaces or newlines
    let mut text = String::new();
    let mut spans = Vec::new();
    for t in &toks {
        text.push_str(if s.chance(1, 5) { "\n" } else { " " });
        let st = text.len();
        text.push_str(t);
        spans.push((st, text.len()));
    }
    text.push('\n');
    let tok_first = ins;
    let tok_term = ins + ng;
    Injected {
        ext_start: spans[tok_first].0,
        ext_end: spans[tok_term].1,
        text,
        tok_first,
        tok_term,
        garbage,
        before: k,
        after: n - k,
        kind: m.item.kind_str(),
        expected: r.ast,
    }
}

fn element_ranges(a: &ast::Aidl) -> Vec<(usize, usize)> {
    match &a.item {
        ast::Item::Interface(i) => i
            .elements
            .iter()
            .map(|e| match e {
                ast::InterfaceElement::Const(c) => (c.full_range.start.offset, c.full_range.end.offset),
                ast::InterfaceElement::Method(m) => (m.full_range.start.offset, m.full_range.end.offset),
            })
            .collect(),
        ast::Item::Parcelable(p) => p
            .elements
            .iter()
            .map(|e| match e {
                ast::ParcelableElement::Const(c) => (c.full_range.start.offset, c.full_range.end.offset),
                ast::ParcelableElement::Field(f) => (f.full_range.start.offset, f.full_range.end.offset),
            })
            .collect(),
        ast::Item::Enum(e) => e.elements.iter().map(|e| (e.full_range.start.offset, e.full_range.end.offset)).collect(),
    }
}

fn retain_elements(a: &mut ast::Aidl, keep: &[bool]) {
    let mut it = keep.iter();
    match &mut a.item {
        ast::Item::Interface(i) => i.elements.retain(|_| *it.next().unwrap()),
        ast::Item::Parcelable(p) => p.elements.retain(|_| *it.next().unwrap()),
        ast::Item::Enum(e) => e.elements.retain(|_| *it.next().unwrap()),
    }
}

/// Ok(Some(salvaged count)) checked; Ok(None) discarded (outside the property's domain)
pub fn check(inj: &Injected, st: &mut Stats) -> Result<Option<usize>, String> {
    let (v, lx) = text_verdict(&inj.text);
    match v {
        TextVerdict::SyntaxErrorAt(i) if i >= inj.tok_first && i <= inj.tok_term => {}
        TextVerdict::WellFormed => {
            st.discard("injected tokens form well-formed member(s)");
            return Ok(None);
        }
        TextVerdict::Undecided => {
            st.discard("undecided digit");
            return Ok(None);
        }
        _ => {
            st.discard("first error not inside the injected member (it does not end at its terminator)");
            return Ok(None);
        }
    }
    let _ = lx;
    let (p, v) = imp::run_one(&inj.text)?;
    if v.ast.is_none() {
        return Err("validate() returned no tree although the parse stage produced one".into());
    }
    let v_errors = v
        .diagnostics
        .iter()
        .filter(|d| d.kind == DiagnosticKind::Error && d.range.start.offset >= inj.ext_start && d.range.end.offset <= inj.ext_end)
        .count();
    if v_errors == 0 {
        return Err(format!(
            "validate() reports no Error inside the malformed member's extent {}..{}; its diagnostics: {}",
            inj.ext_start,
            inj.ext_end,
            v.diagnostics.iter().map(cmp::describe).collect::<Vec<_>>().join(" | ")
        ));
    }
    if !imp::is_submultiset(&p.diagnostics, &v.diagnostics) {
        return Err("a syntax diagnostic of the malformed member is missing from validate()'s result".into());
    }
    let tree = p.ast.as_ref().ok_or_else(|| {
        format!(
            "no tree although the only malformed member ends at its terminator; diagnostics: {}",
            p.diagnostics.iter().map(cmp::describe).collect::<Vec<_>>().join(" | ")
        )
    })?;
    let errors: Vec<_> = p.diagnostics.iter().filter(|d| d.kind == DiagnosticKind::Error).collect();
    if errors.is_empty() {
        return Err("no Error reported for the malformed member".into());
    }
    for d in &errors {
        if d.range.start.offset < inj.ext_start || d.range.end.offset > inj.ext_end {
            return Err(format!(
                "syntax Error outside the malformed member's extent {}..{}: {}",
                inj.ext_start,
                inj.ext_end,
                cmp::describe(d)
            ));
        }
    }
    // members before / after the extent
    let ranges = element_ranges(tree);
    let keep: Vec<bool> = ranges.iter().map(|(s, e)| *e <= inj.ext_start || *s >= inj.ext_end).collect();
    let n_before = ranges.iter().filter(|(_, e)| *e <= inj.ext_start).count();
    let n_after = ranges.iter().filter(|(s, _)| *s >= inj.ext_end).count();
    let salvaged = ranges.len() - n_before - n_after;
    if n_before != inj.before || n_after != inj.after {
        return Err(format!(
            "siblings lost or invented: expected {} members before and {} after the malformed member, the tree has {} before and {} after ({} inside its extent)",
            inj.before, inj.after, n_before, n_after, salvaged
        ));
    }
    let mut filtered = tree.clone();
    retain_elements(&mut filtered, &keep);
    cmp::compare_structure(
        &inj.expected,
        &filtered,
        Mask {
            ranges: true,
            docs: true,
            kinds: true,
            method_oneway: false,
        },
    )
    .map_err(|e| format!("a well-formed sibling changed: {e}"))?;
    Ok(Some(salvaged))
}

impl Prop for C14 {
    fn id(&self) -> &'static str {
        "C14"
    }
    fn rule(&self) -> String {
        "case = generated well-formed item (interface / parcelable / enum) with 0-6 members; at a random member position a member made of 0-8 random tokens of the vocabulary (no ';', '{', '}', and no ',' in enums) followed by the normal terminator is injected. Kept only when the reference recogniser says the document is malformed and its first non-viable token lies within the injected member's extent (first injected token .. terminator); everything else is discarded and counted. Oracle: a tree is returned; the members lying before / after the extent are exactly the siblings before / after, in order and structurally unchanged (members salvaged from inside the extent are allowed); >= 1 Error; every parse-stage Error range lies within the extent. Non-trivial = non-empty garbage with siblings on both sides; distinct by text.".into()
    }
    fn random_cases(&self, tier: Tier) -> u64 {
        tier.pick(60_000, 1_000_000)
    }
    fn max_bytes(&self) -> usize {
        2000
    }
    fn random(&self, env: &Env, bytes: &[u8], st: &mut Stats) -> Result<(), Fail> {
        let mut s = Src::new(bytes);
        let inj = gen_case(&mut s);
        st.eval();
        let case = || bytes_case(bytes, json!({"text": inj.text, "garbage": inj.garbage, "extent": [inj.ext_start, inj.ext_end]}));
        match check(&inj, st) {
            Ok(None) => Ok(()),
            Ok(Some(salvaged)) => {
                st.class(&format!("item:{}", inj.kind));
                st.class(&format!("garbage-length:{}", inj.garbage.len()));
                st.class(&format!("position:{}", if inj.before == 0 { "first" } else if inj.after == 0 { "last" } else { "middle" }));
                if salvaged > 0 {
                    st.class("salvaged-members");
                }
                if !inj.garbage.is_empty() && inj.before > 0 && inj.after > 0 {
                    st.nontrivial(inj.text.as_bytes());
                }
                st.sample(inj.kind, || json!({"text": inj.text, "garbage": inj.garbage}));
                Ok(())
            }
            Err(e) => {
                // known findings are keyed on the exact garbage shape
                let sig = format!("KF-C14:{}:{}", inj.kind, inj.garbage.join(" "));
                if env.kf_open(&sig) {
                    st.kf(&sig);
                    return Ok(());
                }
                Err(Fail::new(e, case()))
            }
        }
    }
    fn replay_other(&self, _env: &Env, _case: &Value, _st: &mut Stats) -> Result<(), Fail> {
        Err(Fail::harness("unknown case kind"))
    }
}
