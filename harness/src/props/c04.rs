//! C04 - every reported range is exact, well-formed and properly nested.

use crate::astvisit::{self, Role};
use crate::cmp;
use crate::core::*;
use crate::doccase::{self, DocCase};
use crate::gen::{self, GenCfg, LayoutCfg};
use crate::imp;
use crate::mutate;
use crate::pos;
use crate::refgram::{text_verdict, TextVerdict};
use crate::reflex::Lexed;
use crate::src::Src;
use crate::tok::K;
use aidl_parser::ast;
use aidl_parser::diagnostic::Diagnostic;
use serde_json::json;

pub struct C04;

fn contains(outer: &ast::Range, inner: &ast::Range) -> bool {
    outer.start.offset <= inner.start.offset && inner.end.offset <= outer.end.offset
}

fn before(a: &ast::Range, b: &ast::Range) -> bool {
    a.end.offset <= b.start.offset
}

fn nest_type(t: &ast::Type, path: &str) -> Result<(), String> {
    if !contains(&t.full_range, &t.symbol_range) {
        return Err(format!("{path}: name range not inside full range"));
    }
    let mut prev: Option<&ast::Range> = None;
    for (i, g) in t.generic_types.iter().enumerate() {
        if !contains(&t.full_range, &g.full_range) {
            return Err(format!("{path}.generic_types[{i}]: not inside its parent's full range"));
        }
        if let Some(p) = prev {
            if !before(p, &g.full_range) {
                return Err(format!("{path}.generic_types[{i}]: overlaps / precedes its sibling"));
            }
        }
        prev = Some(&g.full_range);
        nest_type(g, &format!("{path}.generic_types[{i}]"))?;
    }
    Ok(())
}

fn nest_member(full: &ast::Range, symbol: &ast::Range, ty: Option<&ast::Type>, path: &str) -> Result<(), String> {
    if !contains(full, symbol) {
        return Err(format!("{path}: name range not inside full range"));
    }
    if let Some(t) = ty {
        if !contains(full, &t.full_range) {
            return Err(format!("{path}: type not inside the member's full range"));
        }
        nest_type(t, &format!("{path}.type"))?;
    }
    Ok(())
}

/// Structural nesting / ordering of every range in a tree (any tree, also recovered ones)
pub fn check_nesting(a: &ast::Aidl) -> Result<(), String> {
    if !contains(&a.package.full_range, &a.package.symbol_range) {
        return Err("package: name range not inside full range".into());
    }
    let mut prev = &a.package.full_range;
    for (i, im) in a.imports.iter().enumerate() {
        if !contains(&im.full_range, &im.symbol_range) {
            return Err(format!("imports[{i}]: name range not inside full range"));
        }
        if !before(prev, &im.full_range) {
            return Err(format!("imports[{i}]: does not follow the previous statement"));
        }
        prev = &im.full_range;
    }
    for (i, im) in a.declared_parcelables.iter().enumerate() {
        if !contains(&im.full_range, &im.symbol_range) {
            return Err(format!("declared_parcelables[{i}]: name range not inside full range"));
        }
        if !before(prev, &im.full_range) {
            return Err(format!("declared_parcelables[{i}]: does not follow the previous statement"));
        }
        prev = &im.full_range;
    }
    let (ifull, isym) = match &a.item {
        ast::Item::Interface(i) => (&i.full_range, &i.symbol_range),
        ast::Item::Parcelable(p) => (&p.full_range, &p.symbol_range),
        ast::Item::Enum(e) => (&e.full_range, &e.symbol_range),
    };
    if !before(prev, ifull) {
        return Err("item: does not follow the previous statement".into());
    }
    if !contains(ifull, isym) {
        return Err("item: name range not inside full range".into());
    }
    let mut prev_member: Option<ast::Range> = None;
    let mut member = |full: &ast::Range, path: &str| -> Result<(), String> {
        if !contains(ifull, full) {
            return Err(format!("{path}: not inside the item's full range"));
        }
        if !before(isym, full) {
            return Err(format!("{path}: does not follow the item's name"));
        }
        if let Some(p) = &prev_member {
            if !before(p, full) {
                return Err(format!("{path}: overlaps / precedes its sibling"));
            }
        }
        prev_member = Some(full.clone());
        Ok(())
    };
    match &a.item {
        ast::Item::Interface(i) => {
            for (k, el) in i.elements.iter().enumerate() {
                let p = format!("item.elements[{k}]");
                match el {
                    ast::InterfaceElement::Const(c) => {
                        member(&c.full_range, &p)?;
                        nest_member(&c.full_range, &c.symbol_range, Some(&c.const_type), &p)?;
                    }
                    ast::InterfaceElement::Method(m) => {
                        member(&m.full_range, &p)?;
                        nest_member(&m.full_range, &m.symbol_range, Some(&m.return_type), &p)?;
                        for (name, r) in [("oneway_range", &m.oneway_range), ("transact_code_range", &m.transact_code_range)] {
                            if !contains(&m.full_range, r) {
                                return Err(format!(
                                    "{p}.{name} {}..{} not inside the method's full range {}..{}",
                                    r.start.offset, r.end.offset, m.full_range.start.offset, m.full_range.end.offset
                                ));
                            }
                        }
                        if !before(&m.return_type.full_range, &m.symbol_range) {
                            return Err(format!("{p}: name does not follow the return type"));
                        }
                        let mut prev_arg = m.symbol_range.clone();
                        for (j, arg) in m.args.iter().enumerate() {
                            let ap = format!("{p}.args[{j}]");
                            if !contains(&m.full_range, &arg.full_range) {
                                return Err(format!("{ap}: not inside the method's full range"));
                            }
                            if !before(&prev_arg, &arg.full_range) {
                                return Err(format!("{ap}: overlaps / precedes its sibling"));
                            }
                            prev_arg = arg.full_range.clone();
                            nest_member(&arg.full_range, &arg.symbol_range, Some(&arg.arg_type), &ap)?;
                            match &arg.direction {
                                ast::Direction::In(r) | ast::Direction::Out(r) | ast::Direction::InOut(r) => {
                                    if !contains(&arg.full_range, r) {
                                        return Err(format!("{ap}.direction: not inside the argument"));
                                    }
                                    if !before(r, &arg.arg_type.full_range) {
                                        return Err(format!("{ap}.direction: does not precede the type"));
                                    }
                                }
                                ast::Direction::Unspecified => {}
                            }
                            if !before(&arg.arg_type.full_range, &arg.symbol_range) {
                                return Err(format!("{ap}: name range does not follow the type"));
                            }
                        }
                        if !before(&prev_arg, &m.transact_code_range) {
                            return Err(format!("{p}.transact_code_range: does not follow the arguments"));
                        }
                    }
                }
            }
        }
        ast::Item::Parcelable(pc) => {
            for (k, el) in pc.elements.iter().enumerate() {
                let p = format!("item.elements[{k}]");
                match el {
                    ast::ParcelableElement::Const(c) => {
                        member(&c.full_range, &p)?;
                        nest_member(&c.full_range, &c.symbol_range, Some(&c.const_type), &p)?;
                    }
                    ast::ParcelableElement::Field(f) => {
                        member(&f.full_range, &p)?;
                        nest_member(&f.full_range, &f.symbol_range, Some(&f.field_type), &p)?;
                    }
                }
            }
        }
        ast::Item::Enum(e) => {
            for (k, el) in e.elements.iter().enumerate() {
                let p = format!("item.elements[{k}]");
                member(&el.full_range, &p)?;
                nest_member(&el.full_range, &el.symbol_range, None, &p)?;
            }
        }
    }
    Ok(())
}

/// Well-formedness of every position in a tree
pub fn check_tree_positions(text: &str, a: &ast::Aidl, lone_cr: bool) -> Result<usize, String> {
    let mut n = 0;
    for (p, _, _, r) in astvisit::all_ranges(a) {
        pos::check_range(text, &r, lone_cr).map_err(|e| format!("{p}: {e}"))?;
        n += 1;
    }
    Ok(n)
}

pub fn check_diag_positions(text: &str, ds: &[Diagnostic], lone_cr: bool) -> Result<usize, String> {
    let mut n = 0;
    for (i, d) in ds.iter().enumerate() {
        pos::check_range(text, &d.range, lone_cr).map_err(|e| format!("diagnostic[{i}] ({}): {e}", cmp::describe(d)))?;
        n += 1;
        for (j, ri) in d.related_infos.iter().enumerate() {
            pos::check_range(text, &ri.range, lone_cr).map_err(|e| format!("diagnostic[{i}].related[{j}]: {e}"))?;
            n += 1;
        }
    }
    Ok(n)
}

fn is_overflow_diag(d: &Diagnostic, lx: &Lexed, text: &str) -> bool {
    lx.toks.iter().enumerate().any(|(i, t)| {
        t.0 == K::Integer
            && t.1 == d.range.start.offset
            && t.2 == d.range.end.offset
            && text[t.1..t.2].parse::<u32>().is_err()
            && i >= 2
            && lx.toks[i - 1].0 == K::Eq
            && lx.toks[i - 2].0 == K::RParen
    })
}

/// Syntax-stage diagnostics against the reference token table. Returns number checked.
pub fn check_syntax_diags(text: &str, parse_diags: &[Diagnostic], v: &TextVerdict, lx: &Lexed) -> Result<usize, String> {
    if *v == TextVerdict::Undecided {
        return Ok(0);
    }
    let last_end = lx.toks.last().map(|t| t.2).unwrap_or(0);
    let mut first_syntax = true;
    let mut n = 0;
    for d in parse_diags {
        if is_overflow_diag(d, lx, text) {
            n += 1;
            continue;
        }
        let (s, e) = (d.range.start.offset, d.range.end.offset);
        let on_token = lx.toks.iter().position(|t| t.1 == s && t.2 == e);
        let at_lex_error = lx.error == Some(s) && s == e;
        let at_end = s == e && s == last_end && lx.error.is_none();
        if on_token.is_none() && !at_lex_error && !at_end {
            return Err(format!(
                "syntax diagnostic {} covers neither one token of the reference token table, nor the unlexable offset {:?}, nor the end of the last token ({last_end})",
                cmp::describe(d),
                lx.error
            ));
        }
        if first_syntax {
            first_syntax = false;
            let ok = match v {
                // (an unlexable character met while the parser looks ahead to recover pre-empts the report)
                TextVerdict::SyntaxErrorAt(i) => on_token == Some(*i) || at_lex_error,
                TextVerdict::LexError(off) => at_lex_error && s == *off,
                TextVerdict::UnexpectedEnd => at_end,
                TextVerdict::WellFormed => false,
                TextVerdict::Undecided => true,
            };
            if !ok {
                return Err(format!(
                    "first syntax diagnostic {} is not at the offending token: reference verdict {:?}{}",
                    cmp::describe(d),
                    v,
                    match v {
                        TextVerdict::SyntaxErrorAt(i) => format!(" (token {}..{} `{}`)", lx.toks[*i].1, lx.toks[*i].2, &text[lx.toks[*i].1..lx.toks[*i].2]),
                        _ => String::new(),
                    }
                ));
            }
        }
        n += 1;
    }
    Ok(n)
}

/// every validation diagnostic sits on the range of a node of the tree (or the empty
/// range at an argument's type start)
pub fn check_validation_diag_ranges(tree: &ast::Aidl, vdiags: &[&Diagnostic]) -> Result<usize, String> {
    let ranges = astvisit::all_ranges(tree);
    let types = astvisit::all_types(tree);
    for d in vdiags {
        let on_node = ranges.iter().any(|(_, _, _, r)| *r == d.range);
        let at_type_start = d.range.start == d.range.end && types.iter().any(|(_, t)| t.full_range.start == d.range.start);
        if !on_node && !at_type_start {
            return Err(format!("validation diagnostic {} does not sit on the range of any node of the tree", cmp::describe(d)));
        }
        for ri in &d.related_infos {
            if !ranges.iter().any(|(_, _, _, r)| *r == ri.range) {
                return Err(format!("related range of {} is not the range of any node", cmp::describe(d)));
            }
        }
    }
    Ok(vdiags.len())
}

/// Full check of a well-formed generated document. Returns (ranges compared, interesting?)
pub fn check_doc(d: &DocCase) -> Result<(usize, bool), String> {
    let text = &d.laid.text;
    let lone_cr = pos::has_lone_cr(text);
    let (p, v) = imp::run_one(text)?;
    let ptree = p.ast.as_ref().ok_or("no parse-stage tree for a well-formed document")?;
    let vtree = v.ast.as_ref().ok_or("no tree for a well-formed document")?;
    let mut n = 0;
    for (name, tree) in [("parse-stage", ptree), ("validated", vtree)] {
        check_tree_positions(text, tree, lone_cr).map_err(|e| format!("{name} tree: {e}"))?;
        check_nesting(tree).map_err(|e| format!("{name} tree nesting: {e}"))?;
        cmp::compare_structure(&d.expected, tree, crate::astvisit::Mask { ranges: true, docs: true, kinds: true, method_oneway: true })
            .map_err(|e| format!("{name} tree structure: {e}"))?;
        if !lone_cr {
            n += cmp::compare_ranges(&d.expected, tree, &d.rendered.toks, &d.laid).map_err(|e| format!("{name} tree: {e}"))?;
        }
    }
    check_diag_positions(text, &v.diagnostics, lone_cr)?;
    let vd = imp::minus(&v.diagnostics, &p.diagnostics);
    check_validation_diag_ranges(vtree, &vd)?;
    // every validation diagnostic (and its related information) sits on the node it names:
    // compare with the reference validator's expectation for this single-file project
    if !lone_cr {
        let keys = crate::refval::keys_of(std::iter::once(&d.expected));
        if let Ok(r) = crate::refval::validate_ref(&d.expected, &keys) {
            n += cmp::compare_diags(&r.diags, &vd, vtree, &|_| true).map_err(|e| format!("validation diagnostics: {e}"))?;
        }
    }
    // interesting: some exact range preceded on its line by a multi-byte char or on a later line
    let mut interesting = false;
    for (_, _, role, r) in astvisit::all_ranges(&d.expected) {
        if crate::render::is_loose(&r) || role != Role::Symbol {
            continue;
        }
        let before = &text[..r.start.offset];
        let line_start = before.rfind('\n').map(|i| i + 1).unwrap_or(0);
        if line_start > 0 || !before[line_start..].is_ascii() {
            interesting = true;
            break;
        }
    }
    Ok((n, interesting))
}

/// Check of an arbitrary (possibly malformed) text
pub fn check_any_text(text: &str) -> Result<(usize, TextVerdict), String> {
    let lone_cr = pos::has_lone_cr(text);
    let (p, v) = imp::run_one(text)?;
    let (verdict, lx) = text_verdict(text);
    let mut n = 0;
    for (name, fr) in [("parse-stage", &p), ("validated", &v)] {
        if let Some(t) = &fr.ast {
            n += check_tree_positions(text, t, lone_cr).map_err(|e| format!("{name} tree: {e}"))?;
            check_nesting(t).map_err(|e| format!("{name} tree nesting: {e}"))?;
        }
        n += check_diag_positions(text, &fr.diagnostics, lone_cr).map_err(|e| format!("{name}: {e}"))?;
    }
    n += check_syntax_diags(text, &p.diagnostics, &verdict, &lx)?;
    if let Some(t) = &v.ast {
        let vd = imp::minus(&v.diagnostics, &p.diagnostics);
        check_validation_diag_ranges(t, &vd)?;
    }
    Ok((n, verdict))
}

impl Prop for C04 {
    fn id(&self) -> &'static str {
        "C04"
    }
    fn rule(&self) -> String {
        "two case families. (A) generated well-formed document under a layout biased to multi-byte comments, CRLF, Unicode whitespace and names split over lines: every range of the parse-stage and validated trees is compared with the range computed from the generator's token table (name = name tokens; list/map = keyword; array = element extent; full = first token [or end of last annotation] .. last token [or terminating ';']; direction / oneway / '= code' = exactly those tokens), every position is checked against the offset->(line, grapheme column) oracle, nesting and sibling order are checked structurally, validation diagnostics must sit on node ranges. (B) mutated documents / soups: all positions well-formed, nesting of any recovered tree, each syntax diagnostic is exactly one token of the reference token table / the unlexable offset / the end of the last token, and the first one is at the reference's first non-viable token. Non-trivial (A) = >= 10 ranges compared exactly and a name preceded on its line by multi-byte text or on a later line; (B) = malformed per the reference with >= 1 diagnostic position checked. Distinct by text.".into()
    }
    fn assumptions(&self) -> Vec<String> {
        vec![
            "ranges of absent optionals (oneway / transact code / unnamed argument) are only required to be well-formed and inside their method / argument".into(),
            "layouts containing a lone CR are excluded from line/column and exact-range comparison (counted as class lone-cr)".into(),
            "second and later syntax diagnostics are only required to be token spans (their position depends on lalrpop's recovery heuristic)".into(),
        ]
    }
    fn random_cases(&self, tier: Tier) -> u64 {
        tier.pick(60_000, 700_000)
    }
    fn max_bytes(&self) -> usize {
        2500
    }
    fn enum_count(&self, _tier: Tier) -> u64 {
        35
    }
    fn enum_case(&self, _env: &Env, idx: u64, st: &mut Stats) -> Result<(), Fail> {
        let (m, what) = super::c02::wide_case(idx);
        // one member per line, CRLF
        let r = crate::render::render(&m);
        let gaps: Vec<String> = (0..=r.toks.len())
            .map(|i| if i > 0 && i < r.toks.len() && (r.toks[i - 1].text == ";" || r.toks[i - 1].text == "{" || r.toks[i - 1].text == ",") { "\r\n  ".to_owned() } else { " ".to_owned() })
            .collect();
        let d = DocCase::build(m, r, &gaps)?;
        st.eval();
        st.class("wide-document");
        match check_doc(&d) {
            Ok((n, _)) => {
                st.add("ranges_compared_exactly", n as u64);
                st.nontrivial(d.laid.text.as_bytes());
                Ok(())
            }
            Err(e) => Err(Fail::new(e, json!({"kind": "enum", "idx": idx, "what": what}))),
        }
    }
    fn random(&self, _env: &Env, bytes: &[u8], st: &mut Stats) -> Result<(), Fail> {
        let mut s = Src::new(bytes);
        let malformed = s.chance(1, 3);
        let lc = LayoutCfg::default();
        if !malformed {
            let cfg = GenCfg::default();
            let d = if s.chance(1, 8) {
                let (primer, d) = doccase::gen_primed_doc(&mut s, &cfg, &lc)?;
                let _ = imp::run_one(&primer);
                st.class("primed");
                d
            } else {
                doccase::gen_doc(&mut s, &cfg, &lc)?
            };
            st.eval();
            let ls = doccase::layout_stats(&d);
            st.class("family:well-formed");
            if pos::has_lone_cr(&d.laid.text) {
                st.class("lone-cr");
            }
            if ls.multibyte {
                st.class("multibyte");
            }
            if ls.has_crlf {
                st.class("crlf");
            }
            st.class(&format!("lines:{}", d.laid.text.matches('\n').count().min(10)));
            st.sample("well-formed", || json!({"text": d.laid.text}));
            match check_doc(&d) {
                Ok((n, interesting)) => {
                    st.add("ranges_compared_exactly", n as u64);
                    if n >= 10 && interesting {
                        st.nontrivial(d.laid.text.as_bytes());
                    }
                    Ok(())
                }
                Err(e) => Err(Fail::new(e, bytes_case(bytes, json!({"text": d.laid.text})))),
            }
        } else {
            let fam_sel = if s.chance(1, 400) { 5 } else { s.below(5) };
            let text = match fam_sel {
                4 => {
                    // byte order mark / zero-width characters in front of a well-formed document
                    let d = doccase::gen_doc(&mut s, &GenCfg::default(), &lc)?;
                    let pre = *s.pick(&["\u{FEFF}", "\u{FEFF} ", "\u{FEFF}  ", "\u{FEFF}\n", "\u{200B}"]);
                    format!("{pre}{}", d.laid.text)
                }
                5 => {
                    st.class("huge-line");
                    // a single line longer than 65535 bytes with multi-byte text, then a small document
                    let n = 33_000 + s.below(2000);
                    format!("/* {} */ package p; interface I {{ void f(in String key); }} ", "\u{e9}".repeat(n))
                }
                0 => mutate::char_soup(&mut s, 40),
                1 => {
                    let toks = mutate::token_soup(&mut s, 30);
                    join(&mut s, &toks, &lc)
                }
                _ => {
                    let cfg = GenCfg {
                        allow_overflow_code: true,
                        ..GenCfg::default()
                    };
                    let m = gen::file(&mut s, &cfg);
                    let r = crate::render::render(&m);
                    let mut toks: Vec<String> = r.toks.iter().map(|t| t.text.clone()).collect();
                    let m2 = gen::file(&mut s, &cfg);
                    let other: Vec<String> = crate::render::render(&m2).toks.iter().map(|t| t.text.clone()).collect();
                    mutate::mutate_tokens(&mut s, &mut toks, &other, false);
                    join(&mut s, &toks, &lc)
                }
            };
            st.eval();
            st.class("family:mutated/soup");
            st.sample("malformed", || json!({"text": text}));
            match check_any_text(&text) {
                Ok((n, v)) => {
                    st.add("positions_checked_malformed", n as u64);
                    let vs = match v {
                        TextVerdict::WellFormed => "ref:well-formed",
                        TextVerdict::LexError(_) => "ref:lex-error",
                        TextVerdict::SyntaxErrorAt(_) => "ref:syntax-error",
                        TextVerdict::UnexpectedEnd => "ref:unexpected-end",
                        TextVerdict::Undecided => "ref:undecided",
                    };
                    st.class(vs);
                    if n >= 1 && !matches!(v, TextVerdict::WellFormed | TextVerdict::Undecided) {
                        st.nontrivial(text.as_bytes());
                    }
                    Ok(())
                }
                Err(e) => Err(Fail::new(e, bytes_case(bytes, json!({"text": text})))),
            }
        }
    }
    fn replay_other(&self, _env: &Env, case: &serde_json::Value, st: &mut Stats) -> Result<(), Fail> {
        if case.get("kind").and_then(|k| k.as_str()) == Some("text") {
            let text = case["text"].as_str().unwrap_or("");
            st.eval();
            return check_any_text(text).map(|_| ()).map_err(|e| Fail::new(e, case.clone()));
        }
        if case.get("kind").and_then(|k| k.as_str()) == Some("model") {
            // {"kind":"model","model":FileM}: plain layout, exact range comparison
            let m: crate::model::FileM =
                serde_json::from_value(case["model"].clone()).map_err(|e| Fail::harness(format!("bad model: {e}")))?;
            let d = DocCase::plain(m)?;
            st.eval();
            return check_doc(&d).map(|_| ()).map_err(|e| Fail::new(e, case.clone()));
        }
        Err(Fail::harness("unknown case kind"))
    }
}

pub fn join(s: &mut Src, toks: &[String], lc: &LayoutCfg) -> String {
    let mut t = String::new();
    for tok in toks {
        t.push_str(&gen::gap(s, lc, false));
        t.push_str(tok);
    }
    t.push_str(&gen::gap(s, lc, true));
    t
}
