//! C02 - a well-formed document yields a tree that mirrors the source, whatever the layout.

use crate::astvisit::Mask;
use crate::cmp;
use crate::core::*;
use crate::doccase::{self, DocCase};
use crate::gen::{GenCfg, LayoutCfg};
use crate::imp;
use crate::model::*;
use crate::src::Src;
use aidl_parser::ast;
use serde_json::json;

pub struct C02;

fn max_depth(m: &FileM) -> usize {
    let mut d = 0;
    m.for_each_top_type(&mut |t, _| d = d.max(t.depth()));
    d
}

fn n_members(m: &FileM) -> usize {
    match &m.item {
        ItemM::Interface(i) => i.members.len(),
        ItemM::Parcelable(p) => p.members.len(),
        ItemM::Enum(e) => e.elements.len(),
    }
}

pub fn mask() -> Mask {
    Mask {
        ranges: true,
        docs: true,
        kinds: true,
        method_oneway: false,
    }
}

/// expected tree as returned by validate(): kinds ignored, oneway propagated
pub fn expected_after_validation(d: &DocCase) -> ast::Aidl {
    let mut e = d.expected.clone();
    cmp::propagate_oneway(&mut e);
    e
}

pub fn check_doc(d: &DocCase) -> Result<ast::Aidl, String> {
    let (p, v) = imp::run_one(&d.laid.text)?;
    if !p.diagnostics.is_empty() {
        return Err(format!(
            "well-formed document got a syntax-stage diagnostic: {}",
            cmp::describe(&p.diagnostics[0])
        ));
    }
    let tree = v.ast.ok_or("well-formed document yielded no tree")?;
    let exp = expected_after_validation(d);
    cmp::compare_structure(&exp, &tree, mask())?;
    // the parse-stage tree mirrors the source too (oneway flags exactly as written)
    if let Some(pt) = &p.ast {
        cmp::compare_structure(&d.expected, pt, mask()).map_err(|e| format!("parse-stage tree: {e}"))?;
    } else {
        return Err("well-formed document has no parse-stage tree".into());
    }
    Ok(tree)
}

impl Prop for C02 {
    fn id(&self) -> &'static str {
        "C02"
    }
    fn rule(&self) -> String {
        "case = one generated document model (all item kinds, member forms, types to depth 4, all value / annotation forms, trailing commas, near-keyword identifiers) rendered under 2-4 independent random layouts (spaces, tabs, LF/CRLF/CR, Unicode whitespace, line / block / doc comments with arbitrary incl. multi-byte text, no separator where the reference lexer allows). Oracle: tree returned by validate() == tree built from the model (ranges, docs, kinds masked; method oneway = source || interface oneway), parse-stage tree likewise, no syntax diagnostic, and equal trees across layouts. Non-trivial = >= 1 member and a layout with non-space trivia or a no-separator gap; distinct by rendered text.".into()
    }
    fn random_cases(&self, tier: Tier) -> u64 {
        tier.pick(20_000, 350_000)
    }
    fn max_bytes(&self) -> usize {
        2500
    }
    fn random(&self, _env: &Env, bytes: &[u8], st: &mut Stats) -> Result<(), Fail> {
        let mut s = Src::new(bytes);
        let cfg = GenCfg::default();
        let lc = LayoutCfg::default();
        let first = doccase::gen_doc(&mut s, &cfg, &lc)?;
        let nlay = s.range(2, 4);
        let mut trees: Vec<ast::Aidl> = Vec::new();
        let mut texts = Vec::new();
        for i in 0..nlay {
            let d = if i == 0 {
                DocCase::build(first.model.clone(), first.rendered.clone(), &{
                    // reuse the first layout's text via its gaps: rebuild is cheap
                    let mut gaps = Vec::new();
                    let mut prev = 0;
                    for sp in &first.laid.spans {
                        gaps.push(first.laid.text[prev..sp.0].to_owned());
                        prev = sp.1;
                    }
                    gaps.push(first.laid.text[prev..].to_owned());
                    gaps
                })?
            } else {
                first.relayout(&mut s, &lc)?
            };
            st.eval();
            let ls = doccase::layout_stats(&d);
            let members = n_members(&d.model);
            st.class(&format!("item:{}", d.model.item.kind_str()));
            st.class(&format!("type-depth:{}", max_depth(&d.model)));
            st.class(&format!("members:{}", members.min(5)));
            if ls.has_comment {
                st.class("layout:comment");
            }
            if ls.has_unicode_ws {
                st.class("layout:unicode-ws");
            }
            if ls.has_crlf {
                st.class("layout:crlf");
            }
            if ls.no_sep_gaps > 0 {
                st.class("layout:no-separator-gap");
            }
            if d.laid.repaired > 0 {
                st.class("layout:repaired");
            }
            if members >= 1 && (ls.non_space_trivia || ls.no_sep_gaps > 0) {
                st.nontrivial(d.laid.text.as_bytes());
            }
            st.sample(d.model.item.kind_str(), || json!({"text": d.laid.text}));
            texts.push(d.laid.text.clone());
            match check_doc(&d) {
                Ok(t) => trees.push(crate::astvisit::masked(&t, mask())),
                Err(e) => return Err(Fail::new(e, bytes_case(bytes, json!({"layout": i, "text": d.laid.text})))),
            }
        }
        for i in 1..trees.len() {
            if trees[i] != trees[0] {
                return Err(Fail::new(
                    format!("layouts 0 and {i} of the same token sequence give different trees: {}", crate::astvisit::first_diff(&trees[0], &trees[i])),
                    bytes_case(bytes, json!({"texts": texts})),
                ));
            }
        }
        Ok(())
    }
    fn replay_other(&self, _env: &Env, case: &serde_json::Value, st: &mut Stats) -> Result<(), Fail> {
        // {"kind":"model","model":FileM}: plain layout
        if case.get("kind").and_then(|k| k.as_str()) == Some("model") {
            let m: FileM = serde_json::from_value(case["model"].clone()).map_err(|e| Fail::harness(format!("bad model: {e}")))?;
            let d = DocCase::plain(m)?;
            st.eval();
            return check_doc(&d).map(|_| ()).map_err(|e| Fail::new(e, case.clone()));
        }
        Err(Fail::harness("unknown case kind"))
    }
}
