//! C02 - a well-formed document yields a tree that mirrors the source, whatever the layout.

use crate::astvisit::Mask;
use crate::cmp;
use crate::core::*;
use crate::doccase::{self, DocCase};
use crate::gen::{GenCfg, LayoutCfg};
use crate::imp;
use crate::model::*;
use crate::src::Src;
use aidl_parser::ast;
use serde_json::json;

pub struct C02;

fn max_depth(m: &FileM) -> usize {
    let mut d = 0;
    m.for_each_top_type(&mut |t, _| d = d.max(t.depth()));
    d
}

fn n_members(m: &FileM) -> usize {
    match &m.item {
        ItemM::Interface(i) => i.members.len(),
        ItemM::Parcelable(p) => p.members.len(),
        ItemM::Enum(e) => e.elements.len(),
    }
}

pub fn mask() -> Mask {
    Mask {
        ranges: true,
        docs: true,
        kinds: true,
        method_oneway: false,
    }
}

/// expected tree as returned by validate(): kinds ignored, oneway propagated
pub fn expected_after_validation(d: &DocCase) -> ast::Aidl {
    let mut e = d.expected.clone();
    cmp::propagate_oneway(&mut e);
    e
}

pub fn check_doc(d: &DocCase) -> Result<ast::Aidl, String> {
    let (p, v) = imp::run_one(&d.laid.text)?;
    if !p.diagnostics.is_empty() {
        return Err(format!(
            "well-formed document got a syntax-stage diagnostic: {}",
            cmp::describe(&p.diagnostics[0])
        ));
    }
    let tree = v.ast.ok_or("well-formed document yielded no tree")?;
    let exp = expected_after_validation(d);
    cmp::compare_structure(&exp, &tree, mask())?;
    // the parse-stage tree mirrors the source too (oneway flags exactly as written)
    if let Some(pt) = &p.ast {
        cmp::compare_structure(&d.expected, pt, mask()).map_err(|e| format!("parse-stage tree: {e}"))?;
    } else {
        return Err("well-formed document has no parse-stage tree".into());
    }
    Ok(tree)
}

/// "wide" documents: hundreds of members / arguments / imports / elements / parameters
const WIDE_SIZES: [usize; 5] = [100, 255, 256, 257, 300];

pub fn wide_case(idx: u64) -> (FileM, String) {
    let n = WIDE_SIZES[(idx % 5) as usize];
    let shape = idx / 5;
    let int = || TyM::Prim("int".into());
    let lit1 = || LitM {
        kind: LitKind::Int,
        text: "1".into(),
    };
    let base = |item: ItemM| FileM {
        package: vec!["p".into()],
        imports: vec![],
        decls: vec![],
        item,
    };
    let m = match shape {
        0 => base(ItemM::Interface(InterfaceM {
            annos: vec![],
            oneway: false,
            name: "I".into(),
            members: (0..n)
                .map(|i| {
                    IMemberM::Method(MethodM {
                        annos: vec![],
                        oneway: i % 7 == 0,
                        ret: TyM::Void,
                        name: format!("m{i}"),
                        args: vec![ArgM {
                            dir: Some(DirM::In),
                            annos: vec![],
                            ty: int(),
                            name: Some(format!("a{i}")),
                        }],
                        trailing_comma: false,
                        code: Some(format!("{i}")),
                    })
                })
                .collect(),
        })),
        1 => base(ItemM::Interface(InterfaceM {
            annos: vec![],
            oneway: false,
            name: "I".into(),
            members: vec![IMemberM::Method(MethodM {
                annos: vec![],
                oneway: false,
                ret: TyM::Void,
                name: "f".into(),
                args: (0..n)
                    .map(|i| ArgM {
                        dir: if i % 2 == 0 { Some(DirM::In) } else { None },
                        annos: vec![],
                        ty: if i % 3 == 0 { TyM::Str } else { int() },
                        name: if i % 5 == 0 { None } else { Some(format!("a{i}")) },
                    })
                    .collect(),
                trailing_comma: true,
                code: None,
            })],
        })),
        2 => base(ItemM::Parcelable(ParcelableM {
            annos: vec![],
            name: "P".into(),
            members: (0..n)
                .map(|i| {
                    if i % 4 == 0 {
                        PMemberM::Const(ConstM {
                            annos: vec![],
                            ty: int(),
                            name: format!("K{i}"),
                            value: ValueM::Lit(lit1()),
                        })
                    } else {
                        PMemberM::Field(FieldM {
                            annos: vec![],
                            ty: TyM::List(Some(Box::new(TyM::Str))),
                            name: format!("f{i}"),
                            value: None,
                        })
                    }
                })
                .collect(),
        })),
        3 => base(ItemM::Enum(EnumM {
            annos: vec![],
            name: "E".into(),
            elements: (0..n)
                .map(|i| EnumElM {
                    annos: vec![],
                    name: format!("V{i}"),
                    value: if i % 2 == 0 { Some(lit1()) } else { None },
                })
                .collect(),
            trailing_comma: true,
        })),
        4 => {
            let mut f = base(ItemM::Interface(InterfaceM {
                annos: vec![],
                oneway: false,
                name: "I".into(),
                members: vec![],
            }));
            f.imports = (0..n).map(|i| vec!["q".to_owned(), format!("T{i}")]).collect();
            f.decls = (0..n / 4)
                .map(|i| DeclM {
                    annos: vec![],
                    name: vec![format!("D{i}")],
                })
                .collect();
            f
        }
        5 => base(ItemM::Interface(InterfaceM {
            annos: vec![AnnoM {
                name: "@A".into(),
                params: Some((0..n).map(|i| (format!("k{i}"), if i % 2 == 0 { Some(lit1()) } else { None })).collect()),
                trailing_comma: true,
            }],
            oneway: false,
            name: "I".into(),
            members: vec![IMemberM::Const(ConstM {
                annos: vec![],
                ty: TyM::Array(Box::new(int())),
                name: "K".into(),
                value: ValueM::Braces {
                    first: vec![ValueM::Lit(lit1())],
                    rest: (0..n).map(|_| ValueM::Lit(lit1())).collect(),
                    trailing_comma: true,
                },
            })],
        })),
        _ => {
            // long qualified names and many annotations on one member
            let segs: Vec<String> = (0..n.min(120)).map(|i| format!("s{i}")).collect();
            let mut f = base(ItemM::Parcelable(ParcelableM {
                annos: vec![],
                name: "P".into(),
                members: vec![PMemberM::Field(FieldM {
                    annos: (0..n.min(120))
                        .map(|_| AnnoM {
                            name: "@A".into(),
                            params: None,
                            trailing_comma: false,
                        })
                        .collect(),
                    ty: TyM::Custom(segs.clone()),
                    name: "x".into(),
                    value: None,
                })],
            }));
            f.package = segs;
            f
        }
    };
    (m, format!("wide shape {shape} size {n}"))
}

impl Prop for C02 {
    fn id(&self) -> &'static str {
        "C02"
    }
    fn rule(&self) -> String {
        "case = one generated document model (all item kinds, member forms, types to depth 4, all value / annotation forms, trailing commas, near-keyword identifiers) rendered under 2-4 independent random layouts (spaces, tabs, LF/CRLF/CR, Unicode whitespace, line / block / doc comments with arbitrary incl. multi-byte text, no separator where the reference lexer allows). Oracle: tree returned by validate() == tree built from the model (ranges, docs, kinds masked; method oneway = source || interface oneway), parse-stage tree likewise, no syntax diagnostic, and equal trees across layouts. Plus 35 enumerated 'wide' documents (100 / 255 / 256 / 257 / 300 methods, arguments, fields, enum elements, imports, annotation parameters and brace values, 120-segment names). Non-trivial = >= 1 member and a layout with non-space trivia or a no-separator gap; distinct by rendered text.".into()
    }
    fn random_cases(&self, tier: Tier) -> u64 {
        tier.pick(20_000, 350_000)
    }
    fn max_bytes(&self) -> usize {
        2500
    }
    fn enum_count(&self, _tier: Tier) -> u64 {
        35
    }
    fn enum_case(&self, _env: &Env, idx: u64, st: &mut Stats) -> Result<(), Fail> {
        let (m, what) = wide_case(idx);
        let d = DocCase::plain(m)?;
        st.eval();
        st.class("wide-document");
        st.nontrivial(d.laid.text.as_bytes());
        check_doc(&d).map(|_| ()).map_err(|e| Fail::new(e, json!({"kind": "enum", "idx": idx, "what": what})))
    }
    fn random(&self, _env: &Env, bytes: &[u8], st: &mut Stats) -> Result<(), Fail> {
        let mut s = Src::new(bytes);
        let cfg = GenCfg::default();
        let lc = LayoutCfg::default();
        let first = doccase::gen_doc(&mut s, &cfg, &lc)?;
        let nlay = s.range(2, 4);
        let mut trees: Vec<ast::Aidl> = Vec::new();
        let mut texts = Vec::new();
        for i in 0..nlay {
            let d = if i == 0 {
                DocCase::build(first.model.clone(), first.rendered.clone(), &{
                    // reuse the first layout's text via its gaps: rebuild is cheap
                    let mut gaps = Vec::new();
                    let mut prev = 0;
                    for sp in &first.laid.spans {
                        gaps.push(first.laid.text[prev..sp.0].to_owned());
                        prev = sp.1;
                    }
                    gaps.push(first.laid.text[prev..].to_owned());
                    gaps
                })?
            } else {
                first.relayout(&mut s, &lc)?
            };
            st.eval();
            let ls = doccase::layout_stats(&d);
            let members = n_members(&d.model);
            st.class(&format!("item:{}", d.model.item.kind_str()));
            st.class(&format!("type-depth:{}", max_depth(&d.model)));
            st.class(&format!("members:{}", members.min(5)));
            if ls.has_comment {
                st.class("layout:comment");
            }
            if ls.has_unicode_ws {
                st.class("layout:unicode-ws");
            }
            if ls.has_crlf {
                st.class("layout:crlf");
            }
            if ls.no_sep_gaps > 0 {
                st.class("layout:no-separator-gap");
            }
            if d.laid.repaired > 0 {
                st.class("layout:repaired");
            }
            if members >= 1 && (ls.non_space_trivia || ls.no_sep_gaps > 0) {
                st.nontrivial(d.laid.text.as_bytes());
            }
            st.sample(d.model.item.kind_str(), || json!({"text": d.laid.text}));
            texts.push(d.laid.text.clone());
            match check_doc(&d) {
                Ok(t) => trees.push(crate::astvisit::masked(&t, mask())),
                Err(e) => return Err(Fail::new(e, bytes_case(bytes, json!({"layout": i, "text": d.laid.text})))),
            }
        }
        for i in 1..trees.len() {
            if trees[i] != trees[0] {
                return Err(Fail::new(
                    format!("layouts 0 and {i} of the same token sequence give different trees: {}", crate::astvisit::first_diff(&trees[0], &trees[i])),
                    bytes_case(bytes, json!({"texts": texts})),
                ));
            }
        }
        Ok(())
    }
    fn replay_other(&self, _env: &Env, case: &serde_json::Value, st: &mut Stats) -> Result<(), Fail> {
        // {"kind":"model","model":FileM}: plain layout
        if case.get("kind").and_then(|k| k.as_str()) == Some("model") {
            let m: FileM = serde_json::from_value(case["model"].clone()).map_err(|e| Fail::harness(format!("bad model: {e}")))?;
            let d = DocCase::plain(m)?;
            st.eval();
            return check_doc(&d).map(|_| ()).map_err(|e| Fail::new(e, case.clone()));
        }
        Err(Fail::harness("unknown case kind"))
    }
}
