//! C03 - syntax verdicts agree with the grammar; failure is never silent.

use crate::core::*;
use crate::gen::{self, GenCfg, LayoutCfg};
use crate::imp;
use crate::mutate;
use crate::refgram::{text_verdict, TextVerdict};
use crate::reflex::Lexed;
use crate::render;
use crate::src::Src;
use crate::tok::{is_keyword_or_reserved, ALL_KINDS, K, KEYWORDS, RESERVED};
use aidl_parser::ast;
use aidl_parser::diagnostic::DiagnosticKind;
use serde_json::{json, Value};

pub struct C03;

fn has_overflow_code(text: &str, lx: &Lexed) -> bool {
    lx.toks.iter().enumerate().any(|(i, t)| {
        t.0 == K::Integer && text[t.1..t.2].parse::<u32>().is_err() && i >= 2 && lx.toks[i - 1].0 == K::Eq && lx.toks[i - 2].0 == K::RParen
    })
}

/// every user-chosen identifier stored in a tree
pub fn user_identifiers(a: &ast::Aidl) -> Vec<(String, String)> {
    let mut out: Vec<(String, String)> = Vec::new();
    let mut segs = |what: &str, dotted: &str, out: &mut Vec<(String, String)>| {
        for s in dotted.split('.') {
            out.push((what.to_owned(), s.to_owned()));
        }
    };
    segs("package segment", &a.package.name, &mut out);
    for i in a.imports.iter() {
        if !i.path.is_empty() {
            segs("import segment", &i.path, &mut out);
        }
        out.push(("import name".into(), i.name.clone()));
    }
    for i in a.declared_parcelables.iter() {
        if !i.path.is_empty() {
            segs("forward-declaration segment", &i.path, &mut out);
        }
        out.push(("forward-declaration name".into(), i.name.clone()));
    }
    fn annos(v: &[ast::Annotation], out: &mut Vec<(String, String)>) {
        for a in v {
            for k in a.key_values.keys() {
                out.push(("annotation parameter".into(), k.clone()));
            }
        }
    }
    fn ty(t: &ast::Type, out: &mut Vec<(String, String)>) {
        if matches!(t.kind, ast::TypeKind::Unresolved | ast::TypeKind::ResolvedItem(..) | ast::TypeKind::AndroidType(..)) {
            for s in t.name.split('.') {
                out.push(("type name segment".into(), s.to_owned()));
            }
        }
        for g in &t.generic_types {
            ty(g, out);
        }
    }
    match &a.item {
        ast::Item::Interface(i) => {
            out.push(("item name".into(), i.name.clone()));
            annos(&i.annotations, &mut out);
            for el in &i.elements {
                match el {
                    ast::InterfaceElement::Method(m) => {
                        out.push(("method name".into(), m.name.clone()));
                        annos(&m.annotations, &mut out);
                        ty(&m.return_type, &mut out);
                        for arg in &m.args {
                            if let Some(n) = &arg.name {
                                out.push(("argument name".into(), n.clone()));
                            }
                            annos(&arg.annotations, &mut out);
                            ty(&arg.arg_type, &mut out);
                        }
                    }
                    ast::InterfaceElement::Const(c) => {
                        out.push(("constant name".into(), c.name.clone()));
                        annos(&c.annotations, &mut out);
                        ty(&c.const_type, &mut out);
                    }
                }
            }
        }
        ast::Item::Parcelable(p) => {
            out.push(("item name".into(), p.name.clone()));
            annos(&p.annotations, &mut out);
            for el in &p.elements {
                match el {
                    ast::ParcelableElement::Field(f) => {
                        out.push(("field name".into(), f.name.clone()));
                        annos(&f.annotations, &mut out);
                        ty(&f.field_type, &mut out);
                    }
                    ast::ParcelableElement::Const(c) => {
                        out.push(("constant name".into(), c.name.clone()));
                        annos(&c.annotations, &mut out);
                        ty(&c.const_type, &mut out);
                    }
                }
            }
        }
        ast::Item::Enum(e) => {
            out.push(("item name".into(), e.name.clone()));
            annos(&e.annotations, &mut out);
            for el in &e.elements {
                out.push(("enum element name".into(), el.name.clone()));
            }
        }
    }
    out
}

#[derive(Debug, Clone, Copy, PartialEq, Eq)]
pub enum Outcome {
    WellFormed,
    Malformed,
    Skipped,
}

/// The C03 oracle on one text. Ok((outcome, label))
pub fn check_text(text: &str) -> Result<(Outcome, &'static str), String> {
    let (p, v) = imp::run_one(text)?;
    let (verdict, lx) = text_verdict(text);
    // names: on every tree returned by any input
    for (stage, t) in [("parse-stage", &p.ast), ("validated", &v.ast)] {
        if let Some(t) = t {
            for (what, name) in user_identifiers(t) {
                if is_keyword_or_reserved(&name) {
                    return Err(format!("{stage} tree stores the keyword / reserved word `{name}` as {what}"));
                }
            }
        }
    }
    // a result without a tree always carries an Error
    for (stage, r) in [("parse-stage", &p), ("validated", &v)] {
        if r.ast.is_none() && !r.diagnostics.iter().any(|d| d.kind == DiagnosticKind::Error) {
            return Err(format!("{stage} result has no tree and no Error diagnostic"));
        }
    }
    // validation never drops syntax diagnostics
    if !imp::is_submultiset(&p.diagnostics, &v.diagnostics) {
        return Err("a syntax-stage diagnostic is missing from validate()'s result".into());
    }
    if verdict == TextVerdict::Undecided {
        return Ok((Outcome::Skipped, "undecided-digit"));
    }
    if has_overflow_code(text, &lx) {
        return Ok((Outcome::Skipped, "overflow-code"));
    }
    let clean = p.ast.is_some() && p.diagnostics.is_empty();
    let w = verdict == TextVerdict::WellFormed;
    if w && !clean {
        return Err(format!(
            "document is well-formed under the grammar but the parse-stage result is not clean: tree present = {}, first diagnostic: {}",
            p.ast.is_some(),
            p.diagnostics.first().map(crate::cmp::describe).unwrap_or_default()
        ));
    }
    if !w && clean {
        return Err(format!("document is malformed under the grammar ({verdict:?}) but was reported free of syntax errors"));
    }
    if !w {
        if !p.diagnostics.iter().any(|d| d.kind == DiagnosticKind::Error) {
            return Err(format!("malformed document ({verdict:?}) without any Error diagnostic"));
        }
        if !v.diagnostics.iter().any(|d| d.kind == DiagnosticKind::Error) {
            return Err("malformed document: validate() returned no Error".into());
        }
        super::c04::check_syntax_diags(text, &p.diagnostics, &verdict, &lx)?;
    }
    let label = match verdict {
        TextVerdict::WellFormed => "well-formed",
        TextVerdict::LexError(_) => "lexical",
        TextVerdict::SyntaxErrorAt(i) => {
            if i + 1 == lx.toks.len() && lx.error.is_none() {
                "unexpected-token(last)"
            } else {
                "unexpected-token"
            }
        }
        TextVerdict::UnexpectedEnd => "unexpected-end",
        TextVerdict::Undecided => "undecided",
    };
    Ok((if w { Outcome::WellFormed } else { Outcome::Malformed }, label))
}

// ---------------------------------------------------------------------------
// enumerated part

const HOLE: &str = "\u{1}";

const FRAMES: &[(&str, &[&str])] = &[
    ("start-of-file", &[HOLE, "package", "a", ";", "interface", "I", "{", "}"]),
    ("between-statements", &["package", "a", ";", HOLE, "interface", "I", "{", "}"]),
    ("interface-body", &["package", "a", ";", "interface", "I", "{", HOLE, "}"]),
    ("parcelable-body", &["package", "a", ";", "parcelable", "P", "{", HOLE, "}"]),
    ("enum-body", &["package", "a", ";", "enum", "E", "{", HOLE, "}"]),
    ("argument-list", &["package", "a", ";", "interface", "I", "{", "void", "f", "(", HOLE, ")", ";", "}"]),
    ("type-position", &["package", "a", ";", "parcelable", "P", "{", HOLE, "x", ";", "}"]),
    ("value-position", &["package", "a", ";", "interface", "I", "{", "const", "int", "X", "=", HOLE, ";", "}"]),
    ("annotation-parameters", &["package", "a", ";", "@A", "(", HOLE, ")", "interface", "I", "{", "}"]),
    ("after-the-item", &["package", "a", ";", "interface", "I", "{", "}", HOLE]),
    ("qualified-name", &["package", HOLE, ";", "interface", "I", "{", "}"]),
    ("import-name", &["package", "a", ";", "import", HOLE, ";", "interface", "I", "{", "}"]),
    ("forward-declaration-name", &["package", "a", ";", "parcelable", HOLE, ";", "interface", "I", "{", "}"]),
    ("after-method-parenthesis", &["package", "a", ";", "interface", "I", "{", "void", "f", "(", ")", HOLE, ";", "}"]),
    ("enum-element-value", &["package", "a", ";", "enum", "E", "{", "A", "=", HOLE, ",", "B", "}"]),
    ("inside-generic", &["package", "a", ";", "parcelable", "P", "{", "Map", "<", HOLE, ">", "x", ";", "}"]),
    ("item-header", &["package", "a", ";", HOLE, "I", "{", "}"]),
    ("annotation-parameter-value", &["package", "a", ";", "@A", "(", "x", "=", HOLE, ")", "interface", "I", "{", "}"]),
    ("value-after-reference", &["package", "a", ";", "interface", "I", "{", "const", "int", "X", "=", "a", ".", "b", HOLE, ";", "}"]),
    ("type-after-qualified-name", &["package", "a", ";", "parcelable", "P", "{", "a", ".", "b", HOLE, "x", ";", "}"]),
    ("import-after-two-segments", &["package", "a", ";", "import", "a", ".", "b", HOLE, ";", "interface", "I", "{", "}"]),
    ("after-annotation", &["package", "a", ";", "@A", HOLE, "interface", "I", "{", "}"]),
    ("inside-braces-value", &["package", "a", ";", "parcelable", "P", "{", "int", "x", "=", "{", "1", HOLE, "}", ";", "}"]),
];

fn slot_seqs(max_len: u32) -> u64 {
    (0..=max_len).map(|l| 34u64.pow(l)).sum()
}

fn slot_case(max_len: u32, mut idx: u64) -> (String, String) {
    let per = slot_seqs(max_len);
    let frame = (idx / per) as usize;
    idx %= per;
    let mut len = 0;
    while idx >= 34u64.pow(len) {
        idx -= 34u64.pow(len);
        len += 1;
    }
    let mut fill = Vec::new();
    for _ in 0..len {
        fill.push(ALL_KINDS[(idx % 34) as usize].repr());
        idx /= 34;
    }
    let (name, toks) = FRAMES[frame];
    let mut out: Vec<&str> = Vec::new();
    for t in toks.iter() {
        if *t == HOLE {
            out.extend(fill.iter());
        } else {
            out.push(t);
        }
    }
    (out.join(" "), format!("slot {name} <- [{}]", fill.join(" ")))
}

const NAME_FRAMES: &[(&str, &str)] = &[
    ("package segment", "package a.#.b; interface I { }"),
    ("import segment", "package a; import a.#.B; interface I { }"),
    ("import name", "package a; import a.#; interface I { }"),
    ("forward declaration", "package a; parcelable #; interface I { }"),
    ("item name", "package a; interface # { }"),
    ("method name", "package a; interface I { void #(); }"),
    ("argument name", "package a; interface I { void f(in int #); }"),
    ("constant name", "package a; interface I { const int # = 1; }"),
    ("field name", "package a; parcelable P { int #; }"),
    ("enum element name", "package a; enum E { #, B }"),
    ("annotation parameter", "package a; @A(#=1) interface I { }"),
    ("type name segment", "package a; parcelable P { a.#.T x; }"),
    ("simple type name", "package a; parcelable P { # x; }"),
    ("enum-reference value", "package a; interface I { const int X = #.A; }"),
];

fn name_words() -> Vec<String> {
    let mut base: Vec<&str> = KEYWORDS.iter().map(|k| k.0).collect();
    base.extend(RESERVED.iter());
    base.sort();
    base.dedup();
    let mut out = Vec::new();
    for w in base {
        out.push(w.to_owned());
        out.push(format!("{w}_"));
        out.push(format!("{w}2"));
        out.push(format!("x{w}"));
        let mut c = w.chars();
        let f = c.next().unwrap();
        let cap: String = if f.is_lowercase() {
            f.to_uppercase().chain(c).collect()
        } else {
            f.to_lowercase().chain(c).collect()
        };
        out.push(cap);
    }
    out
}

fn name_case(idx: u64) -> (String, String) {
    let words = name_words();
    let f = (idx as usize) / words.len();
    let w = &words[(idx as usize) % words.len()];
    let (what, frame) = NAME_FRAMES[f];
    (frame.replace('#', w), format!("`{w}` as {what}"))
}

/// numbers of validation diagnostics placed in front of one recovered syntax error
const MANY: &[usize] = &[1, 20, 63, 64, 99, 100, 101, 127, 128, 255, 256, 300];

fn many_case(k: usize) -> (String, String) {
    let n = MANY[k / 3];
    let mut t = String::from("package p;\n");
    for i in 0..n {
        t.push_str(&format!("import u.I{i};\n"));
    }
    match k % 3 {
        0 => t.push_str("interface I {\n  void f();\n  int broken;\n  void g();\n}\n"),
        1 => t.push_str("parcelable P {\n  int x;\n  void ;\n}\n"),
        _ => t.push_str("enum E {\n  A,\n  = 1,\n  B\n}\n"),
    }
    (t, format!("{n} unresolved imports followed by an item with one recovered syntax error"))
}

const LEXICAL: &[&str] = &[
    "interfaces", "in", "int", "inout2", "1f", "1.", ".5", "--1", "\"abc", "/* x", "/*/", "//", "// x", "\u{e9}t\u{e9}", "a\u{e9}", "x\u{0301}",
    "\u{65e5}\u{672c}", "1.5.2", "+", "+1", "-", "-.5f", "1e5", "0x10", "'a'", "\"a\\\"b\"", "\"a\nb\"", "@", "@1", "@a.b", "true1", "_", "__", "a-b",
    "a--b", "1-2", "1 - 2", "{1-2}", "a.b.c", "a..b", ".", "1\u{0663}", "\u{0663}", "\u{FF11}f", "x\u{00A0}y", "x\u{3000}.\u{2003}y", "/**/1", "1/**/",
    "1//\n", "\"//\"", "\"/*\"", "/* \" */ 1", "\0", "\u{FEFF}1",
    "1F", "1.5F", "1L", "0x1F", "1_000", "1.5d", "1.f", "1..2", "\"a\tb\"", "\"a\rb\"", "@A.b", "a$b", "$a", "a#", "true_", "True", "TRUE", "null",
    "Int", "STRING", "string", "list", "MAP", "Void", "IN", "Oneway", "1e", "-", "- 1", "+ 1", "--", "/", "*", "/ /", "/* * /", "/** /", "/* */ */",
    "// \r x", "\u{2028}1", "1\u{2029}", "\u{0085}", "\u{200B}", "\u{00AD}x", "x\u{200D}", "\u{FF21}", "\u{0430}", "_\u{0663}", "a\u{0663}",
];

impl C03 {
    fn run_text(&self, text: &str, family: &str, st: &mut Stats, case: impl FnOnce() -> Value) -> Result<(), Fail> {
        st.eval();
        match check_text(text) {
            Ok((o, label)) => {
                st.class(&format!("family:{family}"));
                st.class(&format!("verdict:{label}"));
                if o != Outcome::Skipped {
                    // distinct by token-kind sequence + error label
                    let lx = crate::reflex::lex(text);
                    let mut key: Vec<u8> = lx.toks.iter().map(|t| t.0 as u8).collect();
                    key.extend_from_slice(label.as_bytes());
                    if let Some(e) = lx.error {
                        key.extend_from_slice(text[e..].as_bytes());
                    }
                    let nt = match o {
                        Outcome::Malformed => !matches!(text_verdict(text).0, TextVerdict::SyntaxErrorAt(0)),
                        Outcome::WellFormed => lx.toks.len() > 8,
                        Outcome::Skipped => false,
                    };
                    if nt {
                        st.nontrivial(&key);
                    }
                }
                st.sample(family, || json!({"text": text, "reference": label}));
                Ok(())
            }
            Err(e) => Err(Fail::new(e, case())),
        }
    }
}

impl Prop for C03 {
    fn id(&self) -> &'static str {
        "C03"
    }
    fn rule(&self) -> String {
        "enumerated: (1) twenty-three well-formed frames with a hole (start of file, between statements, interface / parcelable / enum body, argument list, type, value, annotation parameters, after the item, qualified name, import name, forward-declaration name, after a method's parenthesis, enum element value, inside a generic, item header, annotation parameter value, after a value reference, after a qualified type name, after two import segments, after an annotation, inside a brace value) x every sequence of token kinds (34 kinds, one representative text each) up to length 2 (thorough 3); (2) every keyword and reserved word and four near-keywords derived from each, in each of 14 identifier positions. Random: token-level mutations (insert / delete / replace / swap / duplicate / truncate / splice / keyword-as-name) of rendered documents under random layouts, token soups, and lexical boundary strings / character soups inside a value slot. Oracle: reference verdict (hand-written lexer + Earley recogniser over the transcribed grammar) well-formed <=> parse-stage result clean (tree and no diagnostic, via the hook accessor); malformed => >= 1 Error in the parse-stage result, all syntax diagnostics kept by validate(), first syntax diagnostic at the reference's first non-viable token; no tree => >= 1 Error; no keyword / reserved word stored as a user-chosen identifier in any returned tree. Non-trivial = malformed with the first error after token 0, or well-formed with > 8 tokens; distinct by token-kind sequence.".into()
    }
    fn assumptions(&self) -> Vec<String> {
        vec![
            "documents with an overflowing transact code and texts containing a numeric character outside the reference's digit list are excluded from the verdict comparison (counted as verdict:overflow-code / undecided-digit)".into(),
            "the Earley recogniser is a hand transcription of src/aidl.lalrpop without the error-recovery alternatives".into(),
        ]
    }
    fn random_cases(&self, tier: Tier) -> u64 {
        tier.pick(25_000, 1_000_000)
    }
    fn max_bytes(&self) -> usize {
        2500
    }
    fn exhaustive(&self, _tier: Tier) -> bool {
        true
    }
    fn enum_count(&self, tier: Tier) -> u64 {
        let l = if tier == Tier::Quick { 2 } else { 3 };
        FRAMES.len() as u64 * slot_seqs(l) + (NAME_FRAMES.len() * name_words().len()) as u64 + (LEXICAL.len() * 4) as u64 + MANY.len() as u64 * 3
    }
    fn enum_case(&self, env: &Env, idx: u64, st: &mut Stats) -> Result<(), Fail> {
        let l = if env.tier == Tier::Quick { 2 } else { 3 };
        let n_slots = FRAMES.len() as u64 * slot_seqs(l);
        let n_names = (NAME_FRAMES.len() * name_words().len()) as u64;
        let (text, what, fam) = if idx < n_slots {
            let (t, w) = slot_case(l, idx);
            (t, w, "slot")
        } else if idx < n_slots + n_names {
            let (t, w) = name_case(idx - n_slots);
            (t, w, "name-slot")
        } else if idx >= n_slots + n_names + (LEXICAL.len() * 4) as u64 {
            let (t, w) = many_case((idx - n_slots - n_names - (LEXICAL.len() * 4) as u64) as usize);
            (t, w, "many-diagnostics")
        } else {
            let k = (idx - n_slots - n_names) as usize;
            let s = LEXICAL[k / 4];
            let t = match k % 4 {
                0 => format!("package a; interface I {{ const int X = {s} ; }}"),
                1 => format!("package a; interface I {{ void {s}(); }}"),
                2 => format!("package a; {s} interface I {{ }}"),
                _ => format!("package a; interface I {{ void f({s} int a); }}"),
            };
            (t, format!("lexical `{s}`"), "lexical")
        };
        self.run_text(&text, fam, st, || json!({"kind": "text", "text": text, "what": what, "enum_idx": idx}))
    }
    fn random(&self, _env: &Env, bytes: &[u8], st: &mut Stats) -> Result<(), Fail> {
        let mut s = Src::new(bytes);
        let lc = LayoutCfg::default();
        // overflowing transact codes are in: the verdict comparison skips them, but "no tree =>
        // an Error" and "validation keeps syntax diagnostics" still apply
        let cfg = GenCfg {
            allow_overflow_code: true,
            ..GenCfg::default()
        };
        let fam = s.weighted(&[10, 2, 3, 2, 3, 1]);
        let (text, family) = match fam {
            0 => {
                let m = gen::file(&mut s, &cfg);
                let r = render::render(&m);
                let mut toks: Vec<String> = r.toks.iter().map(|t| t.text.clone()).collect();
                let m2 = gen::file(&mut s, &cfg);
                let other: Vec<String> = render::render(&m2).toks.iter().map(|t| t.text.clone()).collect();
                let clean = s.chance(3, 4);
                mutate::mutate_tokens(&mut s, &mut toks, &other, clean);
                (super::c04::join(&mut s, &toks, &lc), "mutated")
            }
            1 => {
                let toks = mutate::token_soup(&mut s, 25);
                (super::c04::join(&mut s, &toks, &lc), "token-soup")
            }
            2 => {
                let soup = if s.flip() { mutate::char_soup(&mut s, 12) } else { (*s.pick(LEXICAL)).to_owned() };
                let t = match s.below(3) {
                    0 => format!("package a; interface I {{ const int X = {soup} ; }}"),
                    1 => format!("package a; parcelable P {{ int {soup}; }}"),
                    _ => format!("package a; {soup} interface I {{ }}"),
                };
                (t, "lexical-in-slot")
            }
            3 => {
                // well-formed document, unmodified
                let d = crate::doccase::gen_doc(&mut s, &cfg, &lc)?;
                (d.laid.text, "well-formed")
            }
            5 => {
                // byte order mark / stray characters in front of a well-formed document
                let d = crate::doccase::gen_doc(&mut s, &cfg, &lc)?;
                let pre = *s.pick(&["\u{FEFF}", "\u{FEFF} ", "\u{FEFF}\n", "\u{200B}", "\u{FFFE}", "\u{FEFF}\u{FEFF}"]);
                (format!("{pre}{}", d.laid.text), "bom-prefixed")
            }
            _ => {
                // random sentence derived from the transcribed grammar itself (independent of the
                // document model), sometimes with one token mutated
                let budget = s.range(6, 14);
                let kinds = crate::refgram::with_grammar(|g| g.random_sentence(&mut s, budget));
                let mut toks: Vec<String> = kinds
                    .iter()
                    .map(|k| match k {
                        K::Ident => (*s.pick(gen::IDENTS)).to_owned(),
                        K::Integer => (*s.pick(gen::CODES)).to_owned(),
                        K::Float => (*s.pick(gen::FLOAT_LITS)).to_owned(),
                        K::QuotedString => (*s.pick(gen::STR_LITS)).to_owned(),
                        K::Boolean => (*s.pick(gen::BOOL_LITS)).to_owned(),
                        K::Annotation => (*s.pick(gen::ANNOS)).to_owned(),
                        K::Primitive => (*s.pick(crate::tok::PRIMITIVES)).to_owned(),
                        K::Direction => (*s.pick(&["in", "out", "inout"])).to_owned(),
                        other => other.repr().to_owned(),
                    })
                    .collect();
                if s.chance(1, 3) {
                    mutate::mutate_tokens(&mut s, &mut toks, &[], true);
                }
                if toks.len() > 400 {
                    toks.truncate(400);
                }
                (super::c04::join(&mut s, &toks, &lc), "grammar-sentence")
            }
        };
        self.run_text(&text, family, st, || bytes_case(bytes, json!({"text": text})))
    }
    fn replay_other(&self, _env: &Env, case: &Value, st: &mut Stats) -> Result<(), Fail> {
        if case.get("kind").and_then(|k| k.as_str()) == Some("text") {
            let text = case["text"].as_str().unwrap_or("").to_owned();
            return self.run_text(&text, "regression", st, || case.clone());
        }
        Err(Fail::harness("unknown case kind"))
    }
}
