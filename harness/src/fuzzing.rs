//! Model-free oracles for byte-level fuzz targets: everything here works on arbitrary
//! text (or several texts) without a generator-side model.

use crate::cmp;
use crate::core::{Env, Stats};
use crate::imp;
use crate::props;
use crate::refval;
use aidl_parser::diagnostic::Diagnostic;

pub const FILE_SEPARATOR: &str = "\n//====\n";

/// which oracles to run, e.g. "C01,C03,C04" (default: all)
pub fn selected(id: &str) -> bool {
    match std::env::var("VERIF_ORACLES") {
        Ok(v) if !v.is_empty() => v.split(',').any(|x| x.trim() == id),
        _ => true,
    }
}

fn tag<T>(id: &str, r: Result<T, String>) -> Result<T, String> {
    r.map_err(|e| format!("{id}: {e}"))
}

/// Differential check of validation against the reference validator, on the library's
/// own parse-stage trees (so it applies to any input that yields a tree).
pub fn check_validation(files: &[(String, String)]) -> Result<usize, String> {
    let out = imp::run_project(files)?;
    let trees: Vec<(&String, &aidl_parser::ast::Aidl)> = out
        .parse
        .iter()
        .filter_map(|(id, r)| r.ast.as_ref().map(|t| (id, t)))
        .collect();
    let keys = refval::keys_of(trees.iter().map(|x| x.1));
    let mut n = 0;
    for (id, pt) in &trees {
        // an overflowing transact code leaves transact_code None: the reference then treats the
        // method as having no code, which the statement does not settle -> skip such files
        let p = &out.parse[*id];
        if !p.diagnostics.is_empty() {
            // recovered errors: members may be missing; the tree is still a valid input for
            // validation, compare anyway
        }
        let Ok(r) = refval::validate_ref(pt, &keys) else { continue };
        let v = &out.valid[*id];
        let Some(actual) = v.ast.as_ref() else {
            return Err(format!("file {id}: parse-stage tree present but validate() returned none"));
        };
        cmp::compare_kinds(&r.tree, actual).map_err(|e| format!("file {id}: {e}"))?;
        // oneway flags
        if let (aidl_parser::ast::Item::Interface(ei), aidl_parser::ast::Item::Interface(ai)) = (&r.tree.item, &actual.item) {
            for (ee, ae) in ei.elements.iter().zip(ai.elements.iter()) {
                if let (aidl_parser::ast::InterfaceElement::Method(em), aidl_parser::ast::InterfaceElement::Method(am)) = (ee, ae) {
                    if em.oneway != am.oneway {
                        return Err(format!("file {id}: method `{}` oneway after validation: expected {}, actual {}", em.name, em.oneway, am.oneway));
                    }
                }
            }
        }
        let has_overflow = p.diagnostics.iter().any(|d| d.message.contains("transact code"));
        if has_overflow {
            continue;
        }
        let vd: Vec<&Diagnostic> = imp::minus(&v.diagnostics, &p.diagnostics);
        n += cmp::compare_diags(&r.diags, &vd, actual, &|_| true).map_err(|e| format!("file {id}: {e}"))?;
    }
    Ok(n)
}

pub fn split_files(text: &str) -> Vec<(String, String)> {
    text.split(FILE_SEPARATOR)
        .take(6)
        .enumerate()
        .map(|(i, t)| (format!("f{i}"), t.to_owned()))
        .collect()
}

/// Run every selected model-free oracle on one fuzz input. Err("Cxx: message").
pub fn check_input(env: &Env, text: &str, st: &mut Stats) -> Result<(), String> {
    let files = split_files(text);
    if selected("C01") {
        tag("C01", props::c01::check_files(&files))?;
    }
    for (_, t) in &files {
        if selected("C03") {
            tag("C03", props::c03::check_text(t).map(|_| ()))?;
        }
        if selected("C04") {
            tag("C04", props::c04::check_any_text(t).map(|_| ()))?;
        }
        if selected("C20") {
            tag("C20", props::c20::check_text(env, t, st).map(|_| ()))?;
        }
    }
    if selected("C05") {
        // reference validator differential (covers C05..C10 classes at once)
        tag("C05", check_validation(&files).map(|_| ()))?;
    }
    if selected("C11") {
        let mut s = crate::src::Src::new(&[3, 1, 4, 1, 5, 9, 2, 6]);
        tag("C11", props::c11::check_files(&files, &mut s, st))?;
    }
    if selected("C15") || selected("C16") || selected("C19") {
        let out = tag("C01", imp::run_project(&files))?;
        for (id, t) in &files {
            for res in [&out.parse, &out.valid] {
                if let Some(tree) = res.get(id).and_then(|r| r.ast.as_ref()) {
                    if selected("C15") {
                        tag("C15", props::c15::check_tree(tree).map(|_| ()))?;
                    }
                    if selected("C16") && t.len() <= 600 {
                        tag("C16", props::c16::check_tree(t, tree).map(|_| ()))?;
                    }
                    if selected("C19") {
                        match props::c19::roundtrip(tree) {
                            Ok(()) => {}
                            Err(props::c19::RtFail::OnewayOnly) => return Err("C19: oneway method not oneway after the round trip".into()),
                            Err(props::c19::RtFail::Other(e)) => return Err(format!("C19: {e}")),
                        }
                    }
                }
            }
        }
    }
    Ok(())
}
