//! Position oracle: offset -> (line, column). Lines are separated by LF, columns
//! count extended grapheme clusters from the line start, both 1-based.

use aidl_parser::ast;
use unicode_segmentation::UnicodeSegmentation;

pub fn line_col(text: &str, offset: usize) -> Option<(usize, usize)> {
    if offset > text.len() || !text.is_char_boundary(offset) {
        return None;
    }
    let before = &text[..offset];
    let line = 1 + before.bytes().filter(|b| *b == b'\n').count();
    let line_start = before.rfind('\n').map(|i| i + 1).unwrap_or(0);
    let col = 1 + UnicodeSegmentation::graphemes(&text[line_start..offset], true).count();
    Some((line, col))
}

/// Independent column count for lines without combining behaviour: chars + 1.
/// Returns None when the line prefix contains anything but "simple" characters.
pub fn simple_col(text: &str, offset: usize) -> Option<usize> {
    let before = &text[..offset];
    let line_start = before.rfind('\n').map(|i| i + 1).unwrap_or(0);
    let prefix = &text[line_start..offset];
    let simple = prefix.chars().all(|c| {
        c.is_ascii() && c != '\r'
            || ('\u{00C0}'..='\u{024F}').contains(&c)
            || ('\u{3041}'..='\u{3096}').contains(&c)
            || ('\u{4E00}'..='\u{9FFF}').contains(&c)
    });
    if simple {
        Some(prefix.chars().count() + 1)
    } else {
        None
    }
}

pub fn position(text: &str, offset: usize) -> ast::Position {
    ast::Position {
        offset,
        line_col: line_col(text, offset).expect("oracle position must be valid"),
    }
}

pub fn range(text: &str, start: usize, end: usize) -> ast::Range {
    ast::Range {
        start: position(text, start),
        end: position(text, end),
    }
}

/// Well-formedness of a reported position. Returns an explanation on failure.
pub fn check_position(text: &str, p: &ast::Position, lone_cr: bool) -> Result<(), String> {
    match line_col(text, p.offset) {
        None => Err(format!(
            "offset {} is outside the text (len {}) or not on a char boundary",
            p.offset,
            text.len()
        )),
        Some(lc) => {
            if lone_cr {
                // a lone CR: whether it ends a line is not fixed by the property; only
                // require 1-based values
                if p.line_col.0 == 0 || p.line_col.1 == 0 {
                    return Err(format!("line/col {:?} not 1-based", p.line_col));
                }
                return Ok(());
            }
            if lc != p.line_col {
                return Err(format!(
                    "offset {} reported as line/col {:?}, oracle says {:?}",
                    p.offset, p.line_col, lc
                ));
            }
            if let Some(sc) = simple_col(text, p.offset) {
                if sc != lc.1 {
                    return Err(format!(
                        "oracle self-check failed at offset {}: grapheme col {} vs char col {}",
                        p.offset, lc.1, sc
                    ));
                }
            }
            Ok(())
        }
    }
}

pub fn check_range(text: &str, r: &ast::Range, lone_cr: bool) -> Result<(), String> {
    check_position(text, &r.start, lone_cr).map_err(|e| format!("start: {e}"))?;
    check_position(text, &r.end, lone_cr).map_err(|e| format!("end: {e}"))?;
    if r.start.offset > r.end.offset {
        return Err(format!(
            "inverted range {}..{}",
            r.start.offset, r.end.offset
        ));
    }
    Ok(())
}

pub fn has_lone_cr(text: &str) -> bool {
    let b = text.as_bytes();
    b.iter()
        .enumerate()
        .any(|(i, c)| *c == b'\r' && b.get(i + 1) != Some(&b'\n'))
}
