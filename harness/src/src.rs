//! Choice source: every generator decodes its case from a byte string. The byte
//! string is produced by proptest (seeded) or by libFuzzer, so shrinking and replay
//! work on one representation. Byte 0 always selects the simplest alternative and an
//! exhausted source yields zeros, so shorter / smaller byte strings give smaller cases.

pub struct Src<'a> {
    data: &'a [u8],
    pos: usize,
}

impl<'a> Src<'a> {
    pub fn new(data: &'a [u8]) -> Self {
        Src { data, pos: 0 }
    }

    pub fn byte(&mut self) -> u8 {
        if self.pos < self.data.len() {
            let b = self.data[self.pos];
            self.pos += 1;
            b
        } else {
            0
        }
    }

    pub fn exhausted(&self) -> bool {
        self.pos >= self.data.len()
    }

    pub fn consumed(&self) -> usize {
        self.pos
    }

    /// Uniform-ish value in 0..n (n >= 1), monotone in the consumed bytes.
    pub fn below(&mut self, n: usize) -> usize {
        if n <= 1 {
            return 0;
        }
        if n <= 256 {
            (self.byte() as usize * n) >> 8
        } else {
            let v = ((self.byte() as usize) << 8) | self.byte() as usize;
            (v * n.min(65536)) >> 16
        }
    }

    /// Value in lo..=hi
    pub fn range(&mut self, lo: usize, hi: usize) -> usize {
        lo + self.below(hi - lo + 1)
    }

    /// true with probability about num/den; byte 0 => false
    pub fn chance(&mut self, num: usize, den: usize) -> bool {
        if den > 64 {
            // rare events: 16 bits of resolution
            let v = ((self.byte() as usize) << 8) | self.byte() as usize;
            return v * den >= (den - num) * 65536 && num > 0;
        }
        let b = self.byte() as usize;
        b * den >= (den - num) * 256 && num > 0
    }

    pub fn flip(&mut self) -> bool {
        self.byte() >= 128
    }

    pub fn pick<'b, T>(&mut self, items: &'b [T]) -> &'b T {
        &items[self.below(items.len())]
    }

    /// Index chosen according to weights (first entry = simplest)
    pub fn weighted(&mut self, weights: &[u32]) -> usize {
        let total: u32 = weights.iter().sum();
        let mut v = (self.below(256) as u32 * total) >> 8;
        for (i, w) in weights.iter().enumerate() {
            if v < *w {
                return i;
            }
            v -= *w;
        }
        weights.len() - 1
    }

    /// Small count, geometric-like: 0 most likely for zero bytes
    pub fn count(&mut self, max: usize) -> usize {
        self.below(max + 1)
    }

    pub fn u32(&mut self) -> u32 {
        let mut v = 0u32;
        for _ in 0..4 {
            v = (v << 8) | self.byte() as u32;
        }
        v
    }
}

pub fn splitmix64(mut x: u64) -> u64 {
    x = x.wrapping_add(0x9E3779B97F4A7C15);
    let mut z = x;
    z = (z ^ (z >> 30)).wrapping_mul(0xBF58476D1CE4E5B9);
    z = (z ^ (z >> 27)).wrapping_mul(0x94D049BB133111EB);
    z ^ (z >> 31)
}

pub fn fnv1a(data: &[u8]) -> u64 {
    let mut h: u64 = 0xcbf29ce484222325;
    for b in data {
        h ^= *b as u64;
        h = h.wrapping_mul(0x100000001b3);
    }
    h
}
