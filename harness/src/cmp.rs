//! Comparison of expected vs actual trees (with the range conventions the property
//! statements allow) and of expected vs actual diagnostic multisets.

use crate::astvisit::{self, Ev, Mask, NodeKind, Role};
use crate::refval::{ExpDiag, Related, Subst};
use crate::render::{is_loose, Laid};
use crate::tok::{Tok, K};
use aidl_parser::ast;
use aidl_parser::diagnostic::Diagnostic;

/// Compare everything but ranges (and the masked fields)
pub fn compare_structure(expected: &ast::Aidl, actual: &ast::Aidl, mut mask: Mask) -> Result<(), String> {
    mask.ranges = true;
    let e = astvisit::masked(expected, mask);
    let a = astvisit::masked(actual, mask);
    if e == a {
        Ok(())
    } else {
        Err(astvisit::first_diff(&e, &a))
    }
}

/// Compare every range of the actual tree with the expected (resolved) tree.
/// `expected` must have the same shape as `actual` (call compare_structure first).
/// Returns the number of ranges compared exactly.
pub fn compare_ranges(expected: &ast::Aidl, actual: &ast::Aidl, toks: &[Tok], l: &Laid) -> Result<usize, String> {
    let ex = astvisit::all_ranges(expected);
    let ac = astvisit::all_ranges(actual);
    if ex.len() != ac.len() {
        return Err(format!("different number of ranges: expected {} actual {}", ex.len(), ac.len()));
    }
    let mut n = 0;
    for ((pe, nk, role, re), (pa, _, _, ra)) in ex.iter().zip(ac.iter()) {
        if pe != pa {
            return Err(format!("range path mismatch {pe} vs {pa}"));
        }
        if is_loose(re) {
            continue;
        }
        n += 1;
        let mut start_ok = ra.start == re.start;
        let mut end_ok = ra.end == re.end;
        let alt_allowed = *role == Role::Full && !matches!(nk, NodeKind::Type | NodeKind::Arg | NodeKind::Direction);
        if alt_allowed {
            // start may be extended backwards to the end of the construct's last annotation
            if !start_ok {
                if let Some(i) = crate::render::tok_starting_at(&l.spans, re.start.offset) {
                    if i > 0 && matches!(toks[i - 1].k, K::Annotation | K::RParen) {
                        let alt = crate::pos::position(&l.text, l.spans[i - 1].1);
                        start_ok = ra.start == alt;
                    }
                }
            }
            // end may include the terminating `;`
            if !end_ok && *nk != NodeKind::EnumElement {
                if let Some(j) = crate::render::tok_ending_at(&l.spans, re.end.offset) {
                    if j + 1 < toks.len() && toks[j + 1].k == K::Semi {
                        let alt = crate::pos::position(&l.text, l.spans[j + 1].1);
                        end_ok = ra.end == alt;
                    }
                }
            }
        }
        if !start_ok || !end_ok {
            return Err(format!(
                "{pe}: expected {}..{} ({:?}..{:?}) `{}`, actual {}..{} ({:?}..{:?}) `{}`",
                re.start.offset,
                re.end.offset,
                re.start.line_col,
                re.end.line_col,
                l.text.get(re.start.offset..re.end.offset).unwrap_or("?"),
                ra.start.offset,
                ra.end.offset,
                ra.start.line_col,
                ra.end.line_col,
                l.text.get(ra.start.offset..ra.end.offset).unwrap_or("<not sliceable>"),
            ));
        }
    }
    Ok(n)
}

fn resolve_exp_range(e: &ExpDiag, actual_tree: &ast::Aidl) -> Option<ast::Range> {
    match &e.subst {
        None => Some(e.range.clone()),
        Some(Subst::DeclFull(i)) => actual_tree.declared_parcelables.get(*i).map(|d| d.full_range.clone()),
        Some(Subst::MethodCode(k)) => match &actual_tree.item {
            ast::Item::Interface(i) => match i.elements.get(*k) {
                Some(ast::InterfaceElement::Method(m)) => Some(m.transact_code_range.clone()),
                _ => None,
            },
            _ => None,
        },
    }
}

fn related_matches(e: &Related, d: &Diagnostic) -> bool {
    match e {
        Related::Ignore => true,
        Related::Exact(v) => v.len() == d.related_infos.len() && v.iter().zip(d.related_infos.iter()).all(|(a, b)| *a == b.range),
        Related::OneOf(v) => d.related_infos.len() == 1 && v.contains(&d.related_infos[0].range),
    }
}

fn word_matches(e: &ExpDiag, d: &Diagnostic) -> bool {
    match e.word {
        None => true,
        Some(w) => {
            let m = d.message.to_lowercase();
            let c = d.context_message.clone().unwrap_or_default().to_lowercase();
            m.contains(w) || c.contains(w)
        }
    }
}

pub fn describe(d: &Diagnostic) -> String {
    format!(
        "{:?} {}..{} ({:?}) related={:?} `{}`",
        d.kind,
        d.range.start.offset,
        d.range.end.offset,
        d.range.start.line_col,
        d.related_infos.iter().map(|r| (r.range.start.offset, r.range.end.offset)).collect::<Vec<_>>(),
        d.message.replace('\n', " ")
    )
}

/// Compare the expected diagnostics whose (resolved) range satisfies `domain` with the
/// actual ones in the same domain, as multisets.
pub fn compare_diags(
    expected: &[ExpDiag],
    actual: &[&Diagnostic],
    actual_tree: &ast::Aidl,
    domain: &dyn Fn(&ast::Range) -> bool,
) -> Result<usize, String> {
    let mut exp: Vec<(&ExpDiag, ast::Range)> = Vec::new();
    for e in expected {
        match resolve_exp_range(e, actual_tree) {
            Some(r) => {
                if domain(&r) {
                    exp.push((e, r));
                }
            }
            None => return Err(format!("expected diagnostic {:?} refers to a node missing in the actual tree", e.class)),
        }
    }
    let act: Vec<&&Diagnostic> = actual.iter().filter(|d| domain(&d.range)).collect();
    let mut used = vec![false; act.len()];
    for (e, r) in &exp {
        let mut found = None;
        for (i, d) in act.iter().enumerate() {
            if used[i] {
                continue;
            }
            if d.kind == e.kind && d.range == *r && related_matches(&e.related, d) && word_matches(e, d) {
                found = Some(i);
                break;
            }
        }
        match found {
            Some(i) => used[i] = true,
            None => {
                return Err(format!(
                    "missing diagnostic: expected {:?} {:?} at {}..{} ({:?}) related {:?}{}; actual diagnostics in this domain: [{}]",
                    e.class,
                    e.kind,
                    r.start.offset,
                    r.end.offset,
                    r.start.line_col,
                    e.related,
                    e.word.map(|w| format!(" mentioning `{w}`")).unwrap_or_default(),
                    act.iter().map(|d| describe(d)).collect::<Vec<_>>().join("; ")
                ))
            }
        }
    }
    for (i, d) in act.iter().enumerate() {
        if !used[i] {
            return Err(format!(
                "unexpected diagnostic: {} ; expected in this domain: [{}]",
                describe(d),
                exp.iter()
                    .map(|(e, r)| format!("{:?} {:?} {}..{}", e.class, e.kind, r.start.offset, r.end.offset))
                    .collect::<Vec<_>>()
                    .join("; ")
            ));
        }
    }
    Ok(exp.len())
}

/// Kinds of all type nodes: expected (reference) vs actual, by path
pub fn compare_kinds(expected: &ast::Aidl, actual: &ast::Aidl) -> Result<usize, String> {
    let e = astvisit::all_types(expected);
    let a = astvisit::all_types(actual);
    if e.len() != a.len() {
        return Err(format!("different number of type nodes: expected {} actual {}", e.len(), a.len()));
    }
    for ((pe, te), (pa, ta)) in e.iter().zip(a.iter()) {
        if pe != pa {
            return Err(format!("type path mismatch {pe} vs {pa}"));
        }
        if te.kind != ta.kind {
            return Err(format!("{pe} (`{}`): expected kind {:?}, actual {:?}", te.name, te.kind, ta.kind));
        }
    }
    Ok(e.len())
}

/// Set method oneway flags of `t` (used to build the expected post-validation tree)
pub fn propagate_oneway(t: &mut ast::Aidl) {
    let iface_oneway = matches!(&t.item, ast::Item::Interface(i) if i.oneway);
    if !iface_oneway {
        return;
    }
    astvisit::visit_mut(t, &mut |_, ev| {
        if let Ev::MethodOneway(o) = ev {
            *o = true;
        }
    });
}
