//! Hand-written visitor over every field of `ast::Aidl` (independent of the
//! library's own traversal code). Used to resolve placeholder ranges, to enumerate all
//! ranges / types / docs / names of a tree, and to mask fields before comparing trees.

use aidl_parser::ast;

#[derive(Clone, Copy, Debug, PartialEq, Eq)]
pub enum NodeKind {
    Package,
    Import,
    Decl,
    Item,
    Method,
    Const,
    Field,
    EnumElement,
    Arg,
    Type,
    Direction,
}

#[derive(Clone, Copy, Debug, PartialEq, Eq)]
pub enum Role {
    Symbol,
    Full,
    Code,
    Oneway,
    Direction,
}

pub enum Ev<'a> {
    Range(NodeKind, Role, &'a mut ast::Range),
    Doc(NodeKind, &'a mut Option<String>),
    /// a type node, before its children
    Type(&'a mut ast::Type),
    /// method oneway flag
    MethodOneway(&'a mut bool),
}

fn seg(path: &str, s: &str) -> String {
    if path.is_empty() {
        s.to_owned()
    } else {
        format!("{path}.{s}")
    }
}

pub fn visit_type_mut(t: &mut ast::Type, path: &str, f: &mut dyn FnMut(&str, Ev)) {
    f(path, Ev::Type(t));
    f(
        &seg(path, "symbol_range"),
        Ev::Range(NodeKind::Type, Role::Symbol, &mut t.symbol_range),
    );
    f(
        &seg(path, "full_range"),
        Ev::Range(NodeKind::Type, Role::Full, &mut t.full_range),
    );
    for (i, g) in t.generic_types.iter_mut().enumerate() {
        visit_type_mut(g, &format!("{path}.generic_types[{i}]"), f);
    }
}

fn visit_const(c: &mut ast::Const, path: &str, f: &mut dyn FnMut(&str, Ev)) {
    f(&seg(path, "doc"), Ev::Doc(NodeKind::Const, &mut c.doc));
    f(
        &seg(path, "symbol_range"),
        Ev::Range(NodeKind::Const, Role::Symbol, &mut c.symbol_range),
    );
    f(
        &seg(path, "full_range"),
        Ev::Range(NodeKind::Const, Role::Full, &mut c.full_range),
    );
    visit_type_mut(&mut c.const_type, &seg(path, "type"), f);
}

pub fn visit_mut(a: &mut ast::Aidl, f: &mut dyn FnMut(&str, Ev)) {
    f(
        "package.symbol_range",
        Ev::Range(NodeKind::Package, Role::Symbol, &mut a.package.symbol_range),
    );
    f(
        "package.full_range",
        Ev::Range(NodeKind::Package, Role::Full, &mut a.package.full_range),
    );
    for (i, im) in a.imports.iter_mut().enumerate() {
        f(
            &format!("imports[{i}].symbol_range"),
            Ev::Range(NodeKind::Import, Role::Symbol, &mut im.symbol_range),
        );
        f(
            &format!("imports[{i}].full_range"),
            Ev::Range(NodeKind::Import, Role::Full, &mut im.full_range),
        );
    }
    for (i, im) in a.declared_parcelables.iter_mut().enumerate() {
        f(
            &format!("declared_parcelables[{i}].symbol_range"),
            Ev::Range(NodeKind::Decl, Role::Symbol, &mut im.symbol_range),
        );
        f(
            &format!("declared_parcelables[{i}].full_range"),
            Ev::Range(NodeKind::Decl, Role::Full, &mut im.full_range),
        );
    }
    match &mut a.item {
        ast::Item::Interface(i) => {
            f("item.doc", Ev::Doc(NodeKind::Item, &mut i.doc));
            f(
                "item.symbol_range",
                Ev::Range(NodeKind::Item, Role::Symbol, &mut i.symbol_range),
            );
            f(
                "item.full_range",
                Ev::Range(NodeKind::Item, Role::Full, &mut i.full_range),
            );
            for (k, el) in i.elements.iter_mut().enumerate() {
                let p = format!("item.elements[{k}]");
                match el {
                    ast::InterfaceElement::Const(c) => visit_const(c, &p, f),
                    ast::InterfaceElement::Method(m) => {
                        f(&seg(&p, "doc"), Ev::Doc(NodeKind::Method, &mut m.doc));
                        f(&seg(&p, "oneway"), Ev::MethodOneway(&mut m.oneway));
                        f(
                            &seg(&p, "symbol_range"),
                            Ev::Range(NodeKind::Method, Role::Symbol, &mut m.symbol_range),
                        );
                        f(
                            &seg(&p, "full_range"),
                            Ev::Range(NodeKind::Method, Role::Full, &mut m.full_range),
                        );
                        f(
                            &seg(&p, "transact_code_range"),
                            Ev::Range(NodeKind::Method, Role::Code, &mut m.transact_code_range),
                        );
                        f(
                            &seg(&p, "oneway_range"),
                            Ev::Range(NodeKind::Method, Role::Oneway, &mut m.oneway_range),
                        );
                        visit_type_mut(&mut m.return_type, &seg(&p, "return_type"), f);
                        for (j, arg) in m.args.iter_mut().enumerate() {
                            let ap = format!("{p}.args[{j}]");
                            f(&seg(&ap, "doc"), Ev::Doc(NodeKind::Arg, &mut arg.doc));
                            match &mut arg.direction {
                                ast::Direction::In(r)
                                | ast::Direction::Out(r)
                                | ast::Direction::InOut(r) => f(
                                    &seg(&ap, "direction"),
                                    Ev::Range(NodeKind::Direction, Role::Direction, r),
                                ),
                                ast::Direction::Unspecified => {}
                            }
                            f(
                                &seg(&ap, "symbol_range"),
                                Ev::Range(NodeKind::Arg, Role::Symbol, &mut arg.symbol_range),
                            );
                            f(
                                &seg(&ap, "full_range"),
                                Ev::Range(NodeKind::Arg, Role::Full, &mut arg.full_range),
                            );
                            visit_type_mut(&mut arg.arg_type, &seg(&ap, "type"), f);
                        }
                    }
                }
            }
        }
        ast::Item::Parcelable(pc) => {
            f("item.doc", Ev::Doc(NodeKind::Item, &mut pc.doc));
            f(
                "item.symbol_range",
                Ev::Range(NodeKind::Item, Role::Symbol, &mut pc.symbol_range),
            );
            f(
                "item.full_range",
                Ev::Range(NodeKind::Item, Role::Full, &mut pc.full_range),
            );
            for (k, el) in pc.elements.iter_mut().enumerate() {
                let p = format!("item.elements[{k}]");
                match el {
                    ast::ParcelableElement::Const(c) => visit_const(c, &p, f),
                    ast::ParcelableElement::Field(fl) => {
                        f(&seg(&p, "doc"), Ev::Doc(NodeKind::Field, &mut fl.doc));
                        f(
                            &seg(&p, "symbol_range"),
                            Ev::Range(NodeKind::Field, Role::Symbol, &mut fl.symbol_range),
                        );
                        f(
                            &seg(&p, "full_range"),
                            Ev::Range(NodeKind::Field, Role::Full, &mut fl.full_range),
                        );
                        visit_type_mut(&mut fl.field_type, &seg(&p, "type"), f);
                    }
                }
            }
        }
        ast::Item::Enum(e) => {
            f("item.doc", Ev::Doc(NodeKind::Item, &mut e.doc));
            f(
                "item.symbol_range",
                Ev::Range(NodeKind::Item, Role::Symbol, &mut e.symbol_range),
            );
            f(
                "item.full_range",
                Ev::Range(NodeKind::Item, Role::Full, &mut e.full_range),
            );
            for (k, el) in e.elements.iter_mut().enumerate() {
                let p = format!("item.elements[{k}]");
                f(&seg(&p, "doc"), Ev::Doc(NodeKind::EnumElement, &mut el.doc));
                f(
                    &seg(&p, "symbol_range"),
                    Ev::Range(NodeKind::EnumElement, Role::Symbol, &mut el.symbol_range),
                );
                f(
                    &seg(&p, "full_range"),
                    Ev::Range(NodeKind::EnumElement, Role::Full, &mut el.full_range),
                );
            }
        }
    }
}

/// All ranges of a tree with their paths (clone of the tree is visited)
pub fn all_ranges(a: &ast::Aidl) -> Vec<(String, NodeKind, Role, ast::Range)> {
    let mut c = a.clone();
    let mut out = Vec::new();
    visit_mut(&mut c, &mut |p, ev| {
        if let Ev::Range(nk, role, r) = ev {
            out.push((p.to_owned(), nk, role, r.clone()));
        }
    });
    out
}

/// All type nodes with their paths, in this visitor's (pre-order) order
pub fn all_types(a: &ast::Aidl) -> Vec<(String, ast::Type)> {
    let mut c = a.clone();
    let mut out = Vec::new();
    visit_mut(&mut c, &mut |p, ev| {
        if let Ev::Type(t) = ev {
            out.push((p.to_owned(), t.clone()));
        }
    });
    out
}

pub fn all_docs(a: &ast::Aidl) -> Vec<(String, Option<String>)> {
    let mut c = a.clone();
    let mut out = Vec::new();
    visit_mut(&mut c, &mut |p, ev| {
        if let Ev::Doc(_, d) = ev {
            out.push((p.to_owned(), d.clone()));
        }
    });
    out
}

#[derive(Clone, Copy, Debug, Default)]
pub struct Mask {
    pub ranges: bool,
    pub docs: bool,
    pub kinds: bool,
    pub method_oneway: bool,
}

fn zero_range() -> ast::Range {
    ast::Range {
        start: ast::Position {
            offset: 0,
            line_col: (0, 0),
        },
        end: ast::Position {
            offset: 0,
            line_col: (0, 0),
        },
    }
}

pub fn masked(a: &ast::Aidl, m: Mask) -> ast::Aidl {
    let mut c = a.clone();
    visit_mut(&mut c, &mut |_, ev| match ev {
        Ev::Range(_, _, r) => {
            if m.ranges {
                *r = zero_range();
            }
        }
        Ev::Doc(_, d) => {
            if m.docs {
                *d = None;
            }
        }
        Ev::Type(t) => {
            if m.kinds {
                if let ast::TypeKind::ResolvedItem(..) | ast::TypeKind::AndroidType(..) = t.kind {
                    t.kind = ast::TypeKind::Unresolved;
                }
            }
        }
        Ev::MethodOneway(o) => {
            if m.method_oneway {
                *o = false;
            }
        }
    });
    c
}

/// First differing line of the pretty Debug output of two trees
pub fn first_diff(expected: &ast::Aidl, actual: &ast::Aidl) -> String {
    let e = format!("{expected:#?}");
    let a = format!("{actual:#?}");
    let el: Vec<&str> = e.lines().collect();
    let al: Vec<&str> = a.lines().collect();
    for i in 0..el.len().max(al.len()) {
        let x = el.get(i).copied().unwrap_or("<end>");
        let y = al.get(i).copied().unwrap_or("<end>");
        if x != y {
            // context: walk back to find enclosing field names
            let ctx: Vec<&str> = el[i.saturating_sub(6)..i.min(el.len())]
                .iter()
                .map(|s| s.trim())
                .collect();
            return format!(
                "first difference at debug line {i}: expected `{}` actual `{}` (context: {})",
                x.trim(),
                y.trim(),
                ctx.join(" | ")
            );
        }
    }
    "no difference in debug output".to_owned()
}
