//! Document / project model. A model is a well-formed AIDL document by construction;
//! it is serde-serialisable so that failing cases can be stored and replayed.

use serde::{Deserialize, Serialize};

pub type Name = Vec<String>; // dotted name as segments

#[derive(Clone, Debug, PartialEq, Serialize, Deserialize)]
pub struct FileM {
    pub package: Name,
    pub imports: Vec<Name>, // each has >= 2 segments
    pub decls: Vec<DeclM>,
    pub item: ItemM,
}

#[derive(Clone, Debug, PartialEq, Serialize, Deserialize)]
pub struct DeclM {
    pub annos: Vec<AnnoM>,
    pub name: Name,
}

#[derive(Clone, Debug, PartialEq, Serialize, Deserialize)]
pub enum ItemM {
    Interface(InterfaceM),
    Parcelable(ParcelableM),
    Enum(EnumM),
}

impl ItemM {
    pub fn name(&self) -> &str {
        match self {
            ItemM::Interface(i) => &i.name,
            ItemM::Parcelable(p) => &p.name,
            ItemM::Enum(e) => &e.name,
        }
    }
    pub fn kind_str(&self) -> &'static str {
        match self {
            ItemM::Interface(_) => "interface",
            ItemM::Parcelable(_) => "parcelable",
            ItemM::Enum(_) => "enum",
        }
    }
}

#[derive(Clone, Debug, PartialEq, Serialize, Deserialize)]
pub struct InterfaceM {
    pub annos: Vec<AnnoM>,
    pub oneway: bool,
    pub name: String,
    pub members: Vec<IMemberM>,
}

#[derive(Clone, Debug, PartialEq, Serialize, Deserialize)]
pub enum IMemberM {
    Method(MethodM),
    Const(ConstM),
}

#[derive(Clone, Debug, PartialEq, Serialize, Deserialize)]
pub struct ParcelableM {
    pub annos: Vec<AnnoM>,
    pub name: String,
    pub members: Vec<PMemberM>,
}

#[derive(Clone, Debug, PartialEq, Serialize, Deserialize)]
pub enum PMemberM {
    Field(FieldM),
    Const(ConstM),
}

#[derive(Clone, Debug, PartialEq, Serialize, Deserialize)]
pub struct EnumM {
    pub annos: Vec<AnnoM>,
    pub name: String,
    pub elements: Vec<EnumElM>,
    pub trailing_comma: bool,
}

#[derive(Clone, Debug, PartialEq, Serialize, Deserialize)]
pub struct EnumElM {
    pub annos: Vec<AnnoM>,
    pub name: String,
    pub value: Option<LitM>,
}

#[derive(Clone, Debug, PartialEq, Serialize, Deserialize)]
pub struct MethodM {
    pub annos: Vec<AnnoM>,
    pub oneway: bool,
    pub ret: TyM,
    pub name: String,
    pub args: Vec<ArgM>,
    pub trailing_comma: bool,
    /// transact code as written (digits)
    pub code: Option<String>,
}

#[derive(Clone, Copy, Debug, PartialEq, Eq, Serialize, Deserialize, Hash, PartialOrd, Ord)]
pub enum DirM {
    In,
    Out,
    InOut,
}

impl DirM {
    pub fn text(self) -> &'static str {
        match self {
            DirM::In => "in",
            DirM::Out => "out",
            DirM::InOut => "inout",
        }
    }
}

#[derive(Clone, Debug, PartialEq, Serialize, Deserialize)]
pub struct ArgM {
    pub dir: Option<DirM>,
    pub annos: Vec<AnnoM>,
    pub ty: TyM,
    pub name: Option<String>,
}

#[derive(Clone, Debug, PartialEq, Serialize, Deserialize)]
pub struct ConstM {
    pub annos: Vec<AnnoM>,
    pub ty: TyM,
    pub name: String,
    pub value: ValueM,
}

#[derive(Clone, Debug, PartialEq, Serialize, Deserialize)]
pub struct FieldM {
    pub annos: Vec<AnnoM>,
    pub ty: TyM,
    pub name: String,
    pub value: Option<ValueM>,
}

#[derive(Clone, Debug, PartialEq, Serialize, Deserialize)]
pub enum TyM {
    Void,
    Prim(String),
    Str,
    CharSeq,
    Array(Box<TyM>),
    List(Option<Box<TyM>>),
    Map(Option<Box<(TyM, TyM)>>),
    Custom(Name),
}

impl TyM {
    pub fn depth(&self) -> usize {
        match self {
            TyM::Array(t) => 1 + t.depth(),
            TyM::List(Some(t)) => 1 + t.depth(),
            TyM::Map(Some(kv)) => 1 + kv.0.depth().max(kv.1.depth()),
            _ => 0,
        }
    }
    pub fn for_each<'a>(&'a self, f: &mut dyn FnMut(&'a TyM, usize), depth: usize) {
        f(self, depth);
        match self {
            TyM::Array(t) => t.for_each(f, depth + 1),
            TyM::List(Some(t)) => t.for_each(f, depth + 1),
            TyM::Map(Some(kv)) => {
                kv.0.for_each(f, depth + 1);
                kv.1.for_each(f, depth + 1);
            }
            _ => {}
        }
    }
}

#[derive(Clone, Copy, Debug, PartialEq, Eq, Serialize, Deserialize)]
pub enum LitKind {
    Int,
    Float,
    Str,
    Bool,
}

#[derive(Clone, Debug, PartialEq, Serialize, Deserialize)]
pub struct LitM {
    pub kind: LitKind,
    pub text: String,
}

#[derive(Clone, Debug, PartialEq, Serialize, Deserialize)]
pub enum ValueM {
    Lit(LitM),
    EmptyBraces,
    /// `{ first+ (, rest)* ,? }`: `first` values are juxtaposed without commas
    Braces {
        first: Vec<ValueM>,
        rest: Vec<ValueM>,
        trailing_comma: bool,
    },
    Ref(String, String),
}

#[derive(Clone, Debug, PartialEq, Serialize, Deserialize)]
pub struct AnnoM {
    /// including the leading '@'
    pub name: String,
    /// None: no parentheses
    pub params: Option<Vec<(String, Option<LitM>)>>,
    pub trailing_comma: bool,
}

#[derive(Clone, Debug, PartialEq, Serialize, Deserialize)]
pub struct ProjectM {
    pub files: Vec<FileM>,
}

impl FileM {
    pub fn key(&self) -> String {
        format!("{}.{}", self.package.join("."), self.item.name())
    }

    /// every type written in the file, in source order, with its placement
    pub fn for_each_top_type<'a>(&'a self, f: &mut dyn FnMut(&'a TyM, Placement)) {
        match &self.item {
            ItemM::Interface(i) => {
                for (mi, m) in i.members.iter().enumerate() {
                    match m {
                        IMemberM::Method(m) => {
                            f(&m.ret, Placement::Return(mi));
                            for (ai, a) in m.args.iter().enumerate() {
                                f(&a.ty, Placement::Arg(mi, ai));
                            }
                        }
                        IMemberM::Const(c) => f(&c.ty, Placement::Const(mi)),
                    }
                }
            }
            ItemM::Parcelable(p) => {
                for (mi, m) in p.members.iter().enumerate() {
                    match m {
                        PMemberM::Field(fl) => f(&fl.ty, Placement::Field(mi)),
                        PMemberM::Const(c) => f(&c.ty, Placement::Const(mi)),
                    }
                }
            }
            ItemM::Enum(_) => {}
        }
    }
}

#[derive(Clone, Copy, Debug, PartialEq, Eq, Hash, PartialOrd, Ord)]
pub enum Placement {
    Return(usize),
    Arg(usize, usize),
    Const(usize),
    Field(usize),
}

impl Placement {
    pub fn label(&self) -> &'static str {
        match self {
            Placement::Return(_) => "return",
            Placement::Arg(..) => "arg",
            Placement::Const(_) => "const",
            Placement::Field(_) => "field",
        }
    }
}
