//! Driver: tiers, sharding over worker threads, proptest-driven random search with
//! shrinking, bounded-exhaustive enumeration, regression replay, known findings,
//! evidence files.

use proptest::prelude::*;
use proptest::strategy::ValueTree;
use proptest::test_runner::{Config, RngAlgorithm, TestRng, TestRunner};
use serde_json::{json, Value};
use std::cell::RefCell;
use std::collections::{BTreeMap, HashSet};
use std::sync::atomic::{AtomicBool, AtomicU64, Ordering};
use std::sync::Arc;
use std::time::Instant;

use crate::src::{fnv1a, splitmix64};

pub const VERIF_DIR: &str = "/verif";

#[derive(Clone, Copy, Debug, PartialEq, Eq)]
pub enum Tier {
    Quick,
    Thorough,
}

impl Tier {
    pub fn name(self) -> &'static str {
        match self {
            Tier::Quick => "quick",
            Tier::Thorough => "thorough",
        }
    }
    pub fn pick(self, q: u64, t: u64) -> u64 {
        match self {
            Tier::Quick => q,
            Tier::Thorough => t,
        }
    }
}

#[derive(Clone, Debug)]
pub struct Fail {
    pub msg: String,
    pub case: Value,
    /// the harness itself is broken (generator produced something unsound): exit 2
    pub harness_error: bool,
}

impl Fail {
    pub fn new(msg: impl Into<String>, case: Value) -> Fail {
        Fail {
            msg: msg.into(),
            case,
            harness_error: false,
        }
    }
    pub fn harness(msg: impl Into<String>) -> Fail {
        Fail {
            msg: msg.into(),
            case: Value::Null,
            harness_error: true,
        }
    }
}

#[derive(Default)]
pub struct Stats {
    pub evals: u64,
    pub nontrivial: HashSet<u64>,
    pub classes: BTreeMap<String, u64>,
    pub samples: Vec<Value>,
    pub kf: BTreeMap<String, u64>,
    pub discards: BTreeMap<String, u64>,
    pub extra: BTreeMap<String, u64>,
    /// when true (shrinking / replay of a failure) nothing is counted
    pub frozen: bool,
}

impl Stats {
    pub fn eval(&mut self) {
        if !self.frozen {
            self.evals += 1;
        }
    }
    pub fn evals_n(&mut self, n: u64) {
        if !self.frozen {
            self.evals += n;
        }
    }
    pub fn nontrivial(&mut self, key: &[u8]) {
        if !self.frozen {
            self.nontrivial.insert(fnv1a(key));
        }
    }
    pub fn class(&mut self, c: &str) {
        if !self.frozen {
            *self.classes.entry(c.to_owned()).or_default() += 1;
        }
    }
    pub fn class_n(&mut self, c: &str, n: u64) {
        if !self.frozen && n > 0 {
            *self.classes.entry(c.to_owned()).or_default() += n;
        }
    }
    pub fn discard(&mut self, why: &str) {
        if !self.frozen {
            *self.discards.entry(why.to_owned()).or_default() += 1;
        }
    }
    pub fn kf(&mut self, id: &str) {
        if !self.frozen {
            *self.kf.entry(id.to_owned()).or_default() += 1;
        }
    }
    pub fn add(&mut self, k: &str, n: u64) {
        if !self.frozen {
            *self.extra.entry(k.to_owned()).or_default() += n;
        }
    }
    /// keep a few samples: the first ones of each label
    pub fn sample(&mut self, label: &str, f: impl FnOnce() -> Value) {
        if self.frozen || self.samples.len() >= 12 {
            return;
        }
        let n = self
            .samples
            .iter()
            .filter(|s| s.get("label").and_then(|l| l.as_str()) == Some(label))
            .count();
        if n < 2 {
            let mut v = f();
            if let Value::Object(m) = &mut v {
                m.insert("label".into(), json!(label));
            } else {
                v = json!({"label": label, "case": v});
            }
            self.samples.push(v);
        }
    }
    fn merge(&mut self, o: Stats) {
        self.evals += o.evals;
        self.nontrivial.extend(o.nontrivial);
        for (k, v) in o.classes {
            *self.classes.entry(k).or_default() += v;
        }
        for (k, v) in o.kf {
            *self.kf.entry(k).or_default() += v;
        }
        for (k, v) in o.discards {
            *self.discards.entry(k).or_default() += v;
        }
        for (k, v) in o.extra {
            *self.extra.entry(k).or_default() += v;
        }
        for s in o.samples {
            if self.samples.len() < 16 {
                self.samples.push(s);
            }
        }
    }
}

#[derive(Clone, Debug)]
pub struct KnownFinding {
    pub id: String,
    pub property: String,
    pub status: String,
    pub description: String,
}

pub struct Env {
    pub tier: Tier,
    pub seed: u64,
    pub findings: Vec<KnownFinding>,
    pub stop: AtomicBool,
    /// strict mode (replay of a single file): known findings are reported as failures too
    pub strict: bool,
}

impl Env {
    pub fn kf_open(&self, id: &str) -> bool {
        !self.strict && self.findings.iter().any(|f| f.id == id && f.status == "open")
    }
}

pub trait Prop: Sync + Send {
    fn id(&self) -> &'static str;
    fn rule(&self) -> String;
    fn assumptions(&self) -> Vec<String> {
        vec![]
    }
    fn random_cases(&self, tier: Tier) -> u64;
    fn max_bytes(&self) -> usize {
        1024
    }
    fn random(&self, env: &Env, bytes: &[u8], st: &mut Stats) -> Result<(), Fail>;
    fn enum_count(&self, _tier: Tier) -> u64 {
        0
    }
    fn enum_case(&self, _env: &Env, _idx: u64, _st: &mut Stats) -> Result<(), Fail> {
        Ok(())
    }
    /// replay of case kinds other than "bytes" / "enum"
    fn replay_other(&self, _env: &Env, case: &Value, _st: &mut Stats) -> Result<(), Fail> {
        Err(Fail::harness(format!("unknown replay case kind: {case}")))
    }
    /// Is the enumerated part a complete enumeration of a finite space?
    fn exhaustive(&self, _tier: Tier) -> bool {
        false
    }
}

pub fn hex(b: &[u8]) -> String {
    b.iter().map(|x| format!("{x:02x}")).collect()
}

pub fn unhex(s: &str) -> Vec<u8> {
    (0..s.len() / 2)
        .map(|i| u8::from_str_radix(&s[2 * i..2 * i + 2], 16).unwrap_or(0))
        .collect()
}

pub fn bytes_case(bytes: &[u8], extra: Value) -> Value {
    let mut v = json!({"kind": "bytes", "hex": hex(bytes)});
    if let (Value::Object(m), Value::Object(e)) = (&mut v, extra) {
        for (k, x) in e {
            m.insert(k, x);
        }
    }
    v
}

pub fn replay_case(p: &dyn Prop, env: &Env, case: &Value, st: &mut Stats) -> Result<(), Fail> {
    match case.get("kind").and_then(|k| k.as_str()) {
        Some("bytes") => {
            let b = unhex(case.get("hex").and_then(|h| h.as_str()).unwrap_or(""));
            p.random(env, &b, st)
        }
        Some("enum") => {
            let idx = case.get("idx").and_then(|h| h.as_u64()).unwrap_or(0);
            p.enum_case(env, idx, st)
        }
        _ => p.replay_other(env, case, st),
    }
}

fn load_findings() -> Vec<KnownFinding> {
    let path = format!("{VERIF_DIR}/known_findings.json");
    let Ok(s) = std::fs::read_to_string(&path) else {
        return vec![];
    };
    let Ok(v) = serde_json::from_str::<Value>(&s) else {
        eprintln!("warning: cannot parse {path}");
        return vec![];
    };
    v.get("findings")
        .and_then(|f| f.as_array())
        .map(|a| {
            a.iter()
                .map(|f| KnownFinding {
                    id: f["id"].as_str().unwrap_or("").to_owned(),
                    property: f["property"].as_str().unwrap_or("").to_owned(),
                    status: f["status"].as_str().unwrap_or("").to_owned(),
                    description: f["description"].as_str().unwrap_or("").to_owned(),
                })
                .collect()
        })
        .unwrap_or_default()
}

pub fn make_env(tier: Tier, strict: bool) -> Env {
    let seed = std::env::var("VERIF_SEED")
        .ok()
        .and_then(|s| {
            let s = s.trim();
            if let Some(h) = s.strip_prefix("0x") {
                u64::from_str_radix(h, 16).ok()
            } else {
                s.parse::<u64>().ok().or_else(|| s.parse::<i64>().ok().map(|v| v as u64))
            }
        })
        .unwrap_or(0xA1D1);
    Env {
        tier,
        seed,
        findings: load_findings(),
        stop: AtomicBool::new(false),
        strict,
    }
}

/// Where evidence and newly found failures are written (default /verif; the mutant
/// runner points this at a scratch directory so that committed evidence is untouched)
pub fn out_dir() -> String {
    std::env::var("VERIF_OUT_DIR").unwrap_or_else(|_| VERIF_DIR.to_owned())
}

fn save_replay(id: &str, fail: &Fail) -> String {
    let dir = format!("{}/regressions/{id}", out_dir());
    let _ = std::fs::create_dir_all(&dir);
    let mut v = fail.case.clone();
    if let Value::Object(m) = &mut v {
        if let Ok(t) = std::env::var("VERIF_TIER_NAME") {
            m.insert("tier".into(), json!(t));
        }
        m.insert("property".into(), json!(id));
        m.insert("message".into(), json!(fail.msg));
    } else {
        v = json!({"property": id, "message": fail.msg, "case": v});
    }
    let body = serde_json::to_string_pretty(&v).unwrap();
    let h = fnv1a(serde_json::to_string(&fail.case).unwrap().as_bytes());
    let path = format!("{dir}/fail-{h:016x}.json");
    let _ = std::fs::write(&path, body);
    path
}

struct Shard {
    stats: Stats,
    fail: Option<Fail>,
}

/// Shrink a failing choice sequence: delete chunks, then lower bytes, while `fails`
/// keeps returning true. Deterministic.
pub fn shrink_bytes(bytes: &[u8], fails: &mut dyn FnMut(&[u8]) -> bool) -> Vec<u8> {
    let mut cur = bytes.to_vec();
    loop {
        let mut improved = false;
        // chunk deletion
        let mut size = cur.len() / 2;
        while size >= 1 {
            let mut i = 0;
            while i + size <= cur.len() {
                let mut cand = cur.clone();
                cand.drain(i..i + size);
                if fails(&cand) {
                    cur = cand;
                    improved = true;
                } else {
                    i += size;
                }
            }
            size /= 2;
        }
        // zero out chunks
        let mut size = (cur.len() / 2).max(1);
        while size >= 1 {
            let mut i = 0;
            while i + size <= cur.len() {
                if cur[i..i + size].iter().any(|b| *b != 0) {
                    let mut cand = cur.clone();
                    for b in &mut cand[i..i + size] {
                        *b = 0;
                    }
                    if fails(&cand) {
                        cur = cand;
                        improved = true;
                    }
                }
                i += size;
            }
            if size == 1 {
                break;
            }
            size /= 2;
        }
        // lower single bytes
        for i in 0..cur.len() {
            let b = cur[i];
            if b == 0 {
                continue;
            }
            for cand_b in [b / 2, b - 1] {
                if cand_b < cur[i] {
                    let mut cand = cur.clone();
                    cand[i] = cand_b;
                    if fails(&cand) {
                        cur = cand;
                        improved = true;
                    }
                }
            }
        }
        if !improved {
            return cur;
        }
    }
}

thread_local! {
    pub static CASE_STARTED: RefCell<Option<Arc<AtomicU64>>> = const { RefCell::new(None) };
}

fn run_shard(p: &dyn Prop, env: &Env, shard: usize, nshards: usize, started: Arc<AtomicU64>, t0: Instant) -> Shard {
    let mut stats = Stats::default();
    let case_log = std::env::var("VERIF_CASE_LOG").ok().map(|d| format!("{d}/shard-{shard}.case"));
    let log_case = |what: &str| {
        if let Some(f) = &case_log {
            let _ = std::fs::write(f, what);
        }
    };
    let mark = |started: &AtomicU64| {
        started.store(t0.elapsed().as_millis() as u64 + 1, Ordering::Relaxed);
    };
    // enumerated part (strided)
    let n_enum = p.enum_count(env.tier);
    let mut idx = shard as u64;
    while idx < n_enum {
        if env.stop.load(Ordering::Relaxed) {
            return Shard { stats, fail: None };
        }
        mark(&started);
        log_case(&format!("{{\"kind\":\"enum\",\"idx\":{idx},\"tier\":\"{}\"}}", env.tier.name()));
        if let Err(f) = p.enum_case(env, idx, &mut stats) {
            env.stop.store(true, Ordering::Relaxed);
            started.store(0, Ordering::Relaxed);
            return Shard { stats, fail: Some(f) };
        }
        idx += nshards as u64;
    }
    // random part
    let total = p.random_cases(env.tier);
    let cases = total / nshards as u64 + if (shard as u64) < total % nshards as u64 { 1 } else { 0 };
    if cases == 0 {
        started.store(0, Ordering::Relaxed);
        return Shard { stats, fail: None };
    }
    let mut seed_bytes = [0u8; 32];
    let mut x = splitmix64(env.seed ^ fnv1a(p.id().as_bytes()) ^ ((shard as u64) << 32));
    for chunk in seed_bytes.chunks_mut(8) {
        x = splitmix64(x);
        chunk.copy_from_slice(&x.to_le_bytes());
    }
    let config = Config {
        cases: 1,
        failure_persistence: None,
        verbose: 0,
        source_file: None,
        ..Config::default()
    };
    let mut runner = TestRunner::new_with_rng(config, TestRng::from_seed(RngAlgorithm::ChaCha, &seed_bytes));
    let strat = proptest::collection::vec(any::<u8>(), 8..=p.max_bytes());
    let mut fail = None;
    for _ in 0..cases {
        if env.stop.load(Ordering::Relaxed) {
            break;
        }
        let bytes = match strat.new_tree(&mut runner) {
            Ok(t) => t.current(),
            Err(e) => {
                fail = Some(Fail::harness(format!("proptest could not generate a value: {e}")));
                break;
            }
        };
        mark(&started);
        log_case(&format!("{{\"kind\":\"bytes\",\"hex\":\"{}\"}}", hex(&bytes)));
        if let Err(f) = p.random(env, &bytes, &mut stats) {
            env.stop.store(true, Ordering::Relaxed);
            if f.harness_error {
                fail = Some(f);
                break;
            }
            // shrink the choice sequence (deterministic, bounded)
            stats.frozen = true;
            let budget = Instant::now();
            let mut tests = 0u32;
            let minimal = shrink_bytes(&bytes, &mut |b: &[u8]| {
                tests += 1;
                if tests > 2500 || budget.elapsed().as_secs() > 12 {
                    return false;
                }
                mark(&started);
                let mut scratch = Stats { frozen: true, ..Stats::default() };
                matches!(p.random(env, b, &mut scratch), Err(ref e) if !e.harness_error)
            });
            fail = Some(match p.random(env, &minimal, &mut stats) {
                Err(f2) => f2,
                Ok(()) => f,
            });
            break;
        }
    }
    started.store(0, Ordering::Relaxed);
    stats.frozen = false;
    Shard { stats, fail }
}

pub fn nshards() -> usize {
    std::env::var("VERIF_THREADS")
        .ok()
        .and_then(|s| s.parse().ok())
        .unwrap_or_else(|| std::thread::available_parallelism().map(|n| n.get()).unwrap_or(4).min(16))
}

/// Run a property check; returns the process exit code.
pub fn run_check(p: &dyn Prop, tier: Tier) -> i32 {
    std::env::set_var("VERIF_TIER_NAME", tier.name());
    let env = make_env(tier, false);
    let t0 = Instant::now();
    let id = p.id();
    let mut total = Stats::default();
    let mut fails: Vec<(Fail, Option<String>)> = Vec::new();

    // 1. regression replay
    let reg_dir = format!("{VERIF_DIR}/regressions/{id}");
    let mut reg_files: Vec<String> = std::fs::read_dir(&reg_dir)
        .map(|d| {
            d.filter_map(|e| e.ok())
                .map(|e| e.path().to_string_lossy().into_owned())
                .filter(|p| p.ends_with(".json"))
                .collect()
        })
        .unwrap_or_default();
    reg_files.sort();
    for f in &reg_files {
        let Ok(s) = std::fs::read_to_string(f) else { continue };
        let Ok(v) = serde_json::from_str::<Value>(&s) else {
            eprintln!("warning: unparsable regression file {f}");
            continue;
        };
        total.class("regression-replay");
        if let Err(fail) = replay_case(p, &env, &v, &mut total) {
            fails.push((fail, Some(f.clone())));
            break;
        }
    }

    // 2. sharded search
    if fails.is_empty() {
        let n = nshards();
        let watch: Vec<Arc<AtomicU64>> = (0..n).map(|_| Arc::new(AtomicU64::new(0))).collect();
        let done = Arc::new(AtomicBool::new(false));
        let hung = Arc::new(AtomicBool::new(false));
        let shards: Vec<Shard> = std::thread::scope(|s| {
            // watchdog
            {
                let watch = watch.clone();
                let done = done.clone();
                let hung = hung.clone();
                s.spawn(move || {
                    let limit_ms: u64 = std::env::var("VERIF_CASE_LIMIT_MS")
                        .ok()
                        .and_then(|x| x.parse().ok())
                        .unwrap_or(60_000);
                    while !done.load(Ordering::Relaxed) {
                        std::thread::sleep(std::time::Duration::from_millis(200));
                        let now = t0.elapsed().as_millis() as u64 + 1;
                        for w in &watch {
                            let st = w.load(Ordering::Relaxed);
                            if st != 0 && now > st + limit_ms {
                                hung.store(true, Ordering::Relaxed);
                                println!(
                                    "INCONCLUSIVE property={id} a single case ran longer than {limit_ms} ms (time budget, not a violation)"
                                );
                                std::process::exit(2);
                            }
                        }
                    }
                });
            }
            let handles: Vec<_> = (0..n)
                .map(|i| {
                    let w = watch[i].clone();
                    let envr = &env;
                    std::thread::Builder::new()
                        .stack_size(256 << 20)
                        .spawn_scoped(s, move || run_shard(p, envr, i, n, w, t0))
                        .unwrap()
                })
                .collect();
            let r = handles.into_iter().map(|h| h.join().expect("shard thread panicked")).collect();
            done.store(true, Ordering::Relaxed);
            r
        });
        let mut shard_fails: Vec<Fail> = Vec::new();
        for sh in shards {
            total.merge(sh.stats);
            if let Some(f) = sh.fail {
                shard_fails.push(f);
            }
        }
        // report one failure: a harness error if any, else the smallest case
        shard_fails.sort_by_key(|f| (!f.harness_error, serde_json::to_string(&f.case).map(|s| s.len()).unwrap_or(0)));
        total.add("shards_with_failure", shard_fails.len() as u64);
        if let Some(f) = shard_fails.into_iter().next() {
            fails.push((f, None));
        }
    }

    let wall = t0.elapsed().as_secs_f64();
    let mut code = 0;
    let mut violations = 0;
    for (f, existing) in &fails {
        if f.harness_error {
            println!("HARNESS-ERROR property={id} {}", f.msg);
            code = 2;
            continue;
        }
        violations += 1;
        let path = match existing {
            Some(p) => p.clone(),
            None => save_replay(id, f),
        };
        println!("VIOLATION property={id} replay={path}");
        println!("  {}", f.msg.replace('\n', "\n  "));
        if code == 0 {
            code = 1;
        }
    }
    for (kf, n) in &total.kf {
        let d = env
            .findings
            .iter()
            .find(|f| &f.id == kf)
            .map(|f| f.description.clone())
            .unwrap_or_default();
        println!("KNOWN-FINDING: property={id} {kf} {d} ({n} cases)");
    }
    write_evidence(p, &env, &total, wall, violations);
    println!(
        "{} property={id} tier={} seed={} evaluations={} distinct_nontrivial={} wall_s={:.1}",
        if code == 0 { "OK" } else { "FAILED" },
        tier.name(),
        env.seed,
        total.evals,
        total.nontrivial.len(),
        wall
    );
    code
}

fn write_evidence(p: &dyn Prop, env: &Env, st: &Stats, wall: f64, violations: i64) {
    let id = p.id();
    let mut assumptions = p.assumptions();
    assumptions.push("reference oracles (lexer, grammar, validator, position and traversal models) under /verif/harness/src are the trusted base".into());
    let ev = json!({
        "property_id": id,
        "tier": env.tier.name(),
        "seed": env.seed as i64,
        "level": "exploration",
        "coverage": {
            "evaluations": st.evals,
            "distinct_nontrivial": st.nontrivial.len(),
            "rule": p.rule(),
            "samples": st.samples,
            "exhaustive": p.exhaustive(env.tier) && p.random_cases(env.tier) == 0,
            "enumerated_part_exhaustive": p.exhaustive(env.tier),
            "enumerated_cases": p.enum_count(env.tier),
            "random_cases_requested": p.random_cases(env.tier),
            "classes": st.classes,
            "discards": st.discards,
            "known_finding_hits": st.kf,
            "counters": st.extra,
        },
        "assumptions": assumptions,
        "wall_s": wall,
        "violations": violations,
    });
    let dir = format!("{}/evidence", out_dir());
    let _ = std::fs::create_dir_all(&dir);
    let path = format!("{dir}/{id}.json");
    if let Err(e) = std::fs::write(&path, serde_json::to_string_pretty(&ev).unwrap()) {
        eprintln!("cannot write {path}: {e}");
    }
}

/// Replay one file in strict mode; exit code 0 (holds), 1 (violation), 2 (harness)
pub fn run_replay(p: &dyn Prop, file: &str) -> i32 {
    let mut env = make_env(Tier::Quick, true);
    let s = match std::fs::read_to_string(file) {
        Ok(s) => s,
        Err(e) => {
            println!("cannot read {file}: {e}");
            return 2;
        }
    };
    let v: Value = match serde_json::from_str(&s) {
        Ok(v) => v,
        Err(e) => {
            println!("cannot parse {file}: {e}");
            return 2;
        }
    };
    if v.get("tier").and_then(|t| t.as_str()) == Some("thorough") {
        env.tier = Tier::Thorough;
    }
    let mut st = Stats::default();
    match replay_case(p, &env, &v, &mut st) {
        Ok(()) => {
            println!("OK property={} replay={file} (property holds on this case)", p.id());
            0
        }
        Err(f) if f.harness_error => {
            println!("HARNESS-ERROR property={} {}", p.id(), f.msg);
            2
        }
        Err(f) => {
            println!("VIOLATION property={} replay={file}", p.id());
            println!("  {}", f.msg.replace('\n', "\n  "));
            1
        }
    }
}
