//! A generated well-formed document: model, tokens, layout, expected tree.

use crate::core::Fail;
use crate::gen::{self, GenCfg, LayoutCfg};
use crate::model::FileM;
use crate::render::{self, Laid, Rendered};
use crate::src::Src;
use aidl_parser::ast;
use serde_json::{json, Value};

pub struct DocCase {
    pub model: FileM,
    pub rendered: Rendered,
    pub laid: Laid,
    /// expected parse-stage tree with real ranges (loose ranges still marked)
    pub expected: ast::Aidl,
}

impl DocCase {
    pub fn build(model: FileM, rendered: Rendered, gaps: &[String]) -> Result<DocCase, Fail> {
        let laid = render::lay_out(&rendered.toks, gaps);
        if !render::lexes_as(&laid, &rendered.toks) {
            return Err(Fail::harness(format!(
                "generator produced a layout whose reference token stream differs from the intended one: {:?}",
                laid.text
            )));
        }
        let expected = render::resolve(&rendered.ast, &laid);
        Ok(DocCase {
            model,
            rendered,
            laid,
            expected,
        })
    }

    pub fn from_model(model: FileM, s: &mut Src, lc: &LayoutCfg) -> Result<DocCase, Fail> {
        let rendered = render::render(&model);
        let gaps = gen::gaps(s, lc, rendered.toks.len());
        Self::build(model, rendered, &gaps)
    }

    pub fn relayout(&self, s: &mut Src, lc: &LayoutCfg) -> Result<DocCase, Fail> {
        let gaps = gen::gaps(s, lc, self.rendered.toks.len());
        Self::build(self.model.clone(), self.rendered.clone(), &gaps)
    }

    pub fn plain(model: FileM) -> Result<DocCase, Fail> {
        let rendered = render::render(&model);
        let gaps = gen::plain_gaps(rendered.toks.len());
        Self::build(model, rendered, &gaps)
    }

    pub fn json(&self) -> Value {
        json!({"text": self.laid.text, "model": serde_json::to_value(&self.model).unwrap_or(Value::Null)})
    }
}

/// A document preceded by a "primer": a tiny document whose LAST computed position (end of its
/// item name, on line 3) has the same byte offset as the FIRST position computed for the
/// document (start of its package name, on line 1). Parsing the primer first on the same thread
/// exposes position state that leaks from one parse into the next.
pub fn gen_primed_doc(s: &mut Src, cfg: &GenCfg, lc: &LayoutCfg) -> Result<(String, DocCase), Fail> {
    let m = gen::file(s, cfg);
    let rendered = render::render(&m);
    let mut gaps = gen::gaps(s, lc, rendered.toks.len());
    let pad = s.range(11, 40);
    gaps[0] = format!("/*{}*/", "-".repeat(pad));
    gaps[1] = " ".to_owned();
    let start = gaps[0].len() + 8; // "package" + one blank
    let primer = format!("package a;\n\ninterface I{} {{}}", "x".repeat(start - 23));
    let d = DocCase::build(m, rendered, &gaps)?;
    Ok((primer, d))
}

pub fn gen_doc(s: &mut Src, cfg: &GenCfg, lc: &LayoutCfg) -> Result<DocCase, Fail> {
    let m = gen::file(s, cfg);
    DocCase::from_model(m, s, lc)
}

/// trivia statistics of a layout
pub struct LayoutStats {
    pub non_space_trivia: bool,
    pub no_sep_gaps: usize,
    pub has_comment: bool,
    pub has_unicode_ws: bool,
    pub has_crlf: bool,
    pub multibyte: bool,
}

pub fn layout_stats(d: &DocCase) -> LayoutStats {
    let text = &d.laid.text;
    let mut no_sep = 0;
    let mut prev_end = 0;
    let mut non_space = false;
    let mut comment = false;
    let mut uws = false;
    for (i, sp) in d.laid.spans.iter().enumerate() {
        let gap = &text[prev_end..sp.0];
        if i > 0 && gap.is_empty() {
            no_sep += 1;
        }
        if gap.chars().any(|c| c != ' ') {
            non_space = true;
        }
        if gap.contains("//") || gap.contains("/*") {
            comment = true;
        }
        if gap.chars().any(|c| c.is_whitespace() && !c.is_ascii()) {
            uws = true;
        }
        prev_end = sp.1;
    }
    LayoutStats {
        non_space_trivia: non_space,
        no_sep_gaps: no_sep,
        has_comment: comment,
        has_unicode_ws: uws,
        has_crlf: text.contains("\r\n"),
        multibyte: !text.is_ascii(),
    }
}
