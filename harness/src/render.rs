//! Model -> token list + expected tree (built from the model alone, never from the
//! parser). Ranges in the expected tree are placeholders referring to token indices;
//! `resolve` turns them into real ranges once a layout has fixed the byte spans.

use crate::astvisit::{self, Ev};
use crate::model::*;
use crate::pos;
use crate::tok::{Tok, K};
use aidl_parser::ast;
use std::collections::HashMap;

pub const LOOSE: usize = usize::MAX;

#[derive(Clone, Debug, PartialEq, Eq)]
pub enum DocNode {
    Item,
    Member(usize),
    Arg(usize, usize),
}

impl DocNode {
    pub fn path(&self) -> String {
        match self {
            DocNode::Item => "item.doc".to_owned(),
            DocNode::Member(i) => format!("item.elements[{i}].doc"),
            DocNode::Arg(i, j) => format!("item.elements[{i}].args[{j}].doc"),
        }
    }
}

#[derive(Clone, Debug)]
pub struct DocSlot {
    /// index of the construct's first token (its annotations / direction included)
    pub first_tok: usize,
    pub node: DocNode,
}

#[derive(Clone, Debug)]
pub struct MemberSpan {
    pub first_tok: usize,
    /// last token of the member itself (before its terminator)
    pub last_tok: usize,
    /// index of the terminator token (`;` or `,`), if present
    pub term_tok: Option<usize>,
}

#[derive(Clone, Debug)]
pub struct Rendered {
    pub toks: Vec<Tok>,
    /// expected tree with placeholder ranges
    pub ast: ast::Aidl,
    pub doc_slots: Vec<DocSlot>,
    pub members: Vec<MemberSpan>,
    /// index of the item's `{` and `}` tokens
    pub body_open: usize,
    pub body_close: usize,
}

struct Em {
    toks: Vec<Tok>,
    doc_slots: Vec<DocSlot>,
    members: Vec<MemberSpan>,
}

fn ps(i: usize) -> ast::Position {
    ast::Position {
        offset: i * 2,
        line_col: (0, 0),
    }
}
fn pe(i: usize) -> ast::Position {
    ast::Position {
        offset: i * 2 + 1,
        line_col: (0, 0),
    }
}
fn rng(a: usize, b: usize) -> ast::Range {
    ast::Range {
        start: ps(a),
        end: pe(b),
    }
}
fn loose() -> ast::Range {
    ast::Range {
        start: ast::Position {
            offset: LOOSE,
            line_col: (0, 0),
        },
        end: ast::Position {
            offset: LOOSE,
            line_col: (0, 0),
        },
    }
}

pub fn is_loose(r: &ast::Range) -> bool {
    r.start.offset == LOOSE
}

impl Em {
    fn t(&mut self, k: K, text: &str) -> usize {
        self.toks.push(Tok::new(k, text));
        self.toks.len() - 1
    }

    fn next(&self) -> usize {
        self.toks.len()
    }

    fn last(&self) -> usize {
        self.toks.len() - 1
    }

    /// dotted name; returns (first, last) token indices
    fn qname(&mut self, n: &Name) -> (usize, usize) {
        let first = self.next();
        for (i, s) in n.iter().enumerate() {
            if i > 0 {
                self.t(K::Dot, ".");
            }
            self.t(K::Ident, s);
        }
        (first, self.last())
    }

    fn lit(&mut self, l: &LitM) -> usize {
        let k = match l.kind {
            LitKind::Int => K::Integer,
            LitKind::Float => K::Float,
            LitKind::Str => K::QuotedString,
            LitKind::Bool => K::Boolean,
        };
        self.t(k, &l.text)
    }

    fn annos(&mut self, v: &[AnnoM]) -> Vec<ast::Annotation> {
        v.iter()
            .map(|a| {
                self.t(K::Annotation, &a.name);
                let mut kv = HashMap::new();
                if let Some(params) = &a.params {
                    self.t(K::LParen, "(");
                    for (i, (k, val)) in params.iter().enumerate() {
                        if i > 0 {
                            self.t(K::Comma, ",");
                        }
                        self.t(K::Ident, k);
                        if let Some(l) = val {
                            self.t(K::Eq, "=");
                            self.lit(l);
                        }
                        kv.insert(k.clone(), val.as_ref().map(|l| l.text.clone()));
                    }
                    if a.trailing_comma && !params.is_empty() {
                        self.t(K::Comma, ",");
                    }
                    self.t(K::RParen, ")");
                }
                ast::Annotation {
                    name: a.name.clone(),
                    key_values: kv,
                }
            })
            .collect()
    }

    fn value(&mut self, v: &ValueM) -> String {
        match v {
            ValueM::Lit(l) => {
                self.lit(l);
                l.text.clone()
            }
            ValueM::EmptyBraces => {
                self.t(K::LBrace, "{");
                self.t(K::RBrace, "}");
                "{}".to_owned()
            }
            ValueM::Braces {
                first,
                rest,
                trailing_comma,
            } => {
                self.t(K::LBrace, "{");
                for x in first {
                    self.value(x);
                }
                for x in rest {
                    self.t(K::Comma, ",");
                    self.value(x);
                }
                if *trailing_comma {
                    self.t(K::Comma, ",");
                }
                self.t(K::RBrace, "}");
                "{...}".to_owned()
            }
            ValueM::Ref(a, b) => {
                self.t(K::Ident, a);
                self.t(K::Dot, ".");
                self.t(K::Ident, b);
                format!("{a}.{b}")
            }
        }
    }

    fn ty(&mut self, t: &TyM) -> ast::Type {
        let simple = |name: &str, kind: ast::TypeKind, i: usize| ast::Type {
            name: name.to_owned(),
            kind,
            generic_types: vec![],
            symbol_range: rng(i, i),
            full_range: rng(i, i),
        };
        match t {
            TyM::Void => {
                let i = self.t(K::Void, "void");
                simple("void", ast::TypeKind::Void, i)
            }
            TyM::Prim(p) => {
                let i = self.t(K::Primitive, p);
                simple(p, ast::TypeKind::Primitive, i)
            }
            TyM::Str => {
                let i = self.t(K::StringT, "String");
                simple("String", ast::TypeKind::String, i)
            }
            TyM::CharSeq => {
                let i = self.t(K::CharSequence, "CharSequence");
                simple("CharSequence", ast::TypeKind::CharSequence, i)
            }
            TyM::Array(inner) => {
                let first = self.next();
                let it = self.ty(inner);
                let inner_last = self.last();
                self.t(K::LBracket, "[");
                let close = self.t(K::RBracket, "]");
                ast::Type {
                    name: "Array".to_owned(),
                    kind: ast::TypeKind::Array,
                    generic_types: vec![it],
                    symbol_range: rng(first, inner_last),
                    full_range: rng(first, close),
                }
            }
            TyM::List(None) => {
                let i = self.t(K::List, "List");
                simple("List", ast::TypeKind::List, i)
            }
            TyM::List(Some(inner)) => {
                let kw = self.t(K::List, "List");
                self.t(K::Lt, "<");
                let it = self.ty(inner);
                let close = self.t(K::Gt, ">");
                ast::Type {
                    name: "List".to_owned(),
                    kind: ast::TypeKind::List,
                    generic_types: vec![it],
                    symbol_range: rng(kw, kw),
                    full_range: rng(kw, close),
                }
            }
            TyM::Map(None) => {
                let i = self.t(K::Map, "Map");
                simple("Map", ast::TypeKind::Map, i)
            }
            TyM::Map(Some(kv)) => {
                let kw = self.t(K::Map, "Map");
                self.t(K::Lt, "<");
                let k = self.ty(&kv.0);
                self.t(K::Comma, ",");
                let v = self.ty(&kv.1);
                let close = self.t(K::Gt, ">");
                ast::Type {
                    name: "Map".to_owned(),
                    kind: ast::TypeKind::Map,
                    generic_types: vec![k, v],
                    symbol_range: rng(kw, kw),
                    full_range: rng(kw, close),
                }
            }
            TyM::Custom(n) => {
                let (a, b) = self.qname(n);
                ast::Type {
                    name: n.join("."),
                    kind: ast::TypeKind::Unresolved,
                    generic_types: vec![],
                    symbol_range: rng(a, b),
                    full_range: rng(a, b),
                }
            }
        }
    }

    fn konst(&mut self, c: &ConstM, idx: usize) -> ast::Const {
        let p0 = self.next();
        self.doc_slots.push(DocSlot {
            first_tok: p0,
            node: DocNode::Member(idx),
        });
        let annotations = self.annos(&c.annos);
        let kw = self.t(K::Const, "const");
        let t = self.ty(&c.ty);
        let n = self.t(K::Ident, &c.name);
        self.t(K::Eq, "=");
        let value = self.value(&c.value);
        let last = self.last();
        let term = self.t(K::Semi, ";");
        self.members.push(MemberSpan {
            first_tok: p0,
            last_tok: last,
            term_tok: Some(term),
        });
        ast::Const {
            name: c.name.clone(),
            const_type: t,
            value,
            annotations,
            doc: None,
            symbol_range: rng(n, n),
            full_range: rng(kw, last),
        }
    }

    fn method(&mut self, m: &MethodM, idx: usize) -> ast::Method {
        let p0 = self.next();
        self.doc_slots.push(DocSlot {
            first_tok: p0,
            node: DocNode::Member(idx),
        });
        let annotations = self.annos(&m.annos);
        let first = self.next();
        let oneway_range = if m.oneway {
            let i = self.t(K::Oneway, "oneway");
            rng(i, i)
        } else {
            loose()
        };
        let return_type = self.ty(&m.ret);
        let n = self.t(K::Ident, &m.name);
        self.t(K::LParen, "(");
        let mut args = Vec::new();
        for (j, a) in m.args.iter().enumerate() {
            if j > 0 {
                self.t(K::Comma, ",");
            }
            let a0 = self.next();
            self.doc_slots.push(DocSlot {
                first_tok: a0,
                node: DocNode::Arg(idx, j),
            });
            let direction = match a.dir {
                None => ast::Direction::Unspecified,
                Some(d) => {
                    let i = self.t(K::Direction, d.text());
                    match d {
                        DirM::In => ast::Direction::In(rng(i, i)),
                        DirM::Out => ast::Direction::Out(rng(i, i)),
                        DirM::InOut => ast::Direction::InOut(rng(i, i)),
                    }
                }
            };
            let annotations = self.annos(&a.annos);
            let arg_type = self.ty(&a.ty);
            let symbol_range = match &a.name {
                Some(nm) => {
                    let i = self.t(K::Ident, nm);
                    rng(i, i)
                }
                None => loose(),
            };
            let last = self.last();
            args.push(ast::Arg {
                direction,
                name: a.name.clone(),
                arg_type,
                annotations,
                doc: None,
                symbol_range,
                full_range: rng(a0, last),
            });
        }
        if m.trailing_comma && !m.args.is_empty() {
            self.t(K::Comma, ",");
        }
        self.t(K::RParen, ")");
        let (transact_code, transact_code_range) = match &m.code {
            Some(c) => {
                let e = self.t(K::Eq, "=");
                let i = self.t(K::Integer, c);
                (c.parse::<u32>().ok(), rng(e, i))
            }
            None => (None, loose()),
        };
        let last = self.last();
        let term = self.t(K::Semi, ";");
        self.members.push(MemberSpan {
            first_tok: p0,
            last_tok: last,
            term_tok: Some(term),
        });
        ast::Method {
            oneway: m.oneway,
            name: m.name.clone(),
            return_type,
            args,
            annotations,
            transact_code,
            doc: None,
            symbol_range: rng(n, n),
            full_range: rng(first, last),
            transact_code_range,
            oneway_range,
        }
    }

    fn field(&mut self, fl: &FieldM, idx: usize) -> ast::Field {
        let p0 = self.next();
        self.doc_slots.push(DocSlot {
            first_tok: p0,
            node: DocNode::Member(idx),
        });
        let annotations = self.annos(&fl.annos);
        let first = self.next();
        let t = self.ty(&fl.ty);
        let n = self.t(K::Ident, &fl.name);
        let value = fl.value.as_ref().map(|v| {
            self.t(K::Eq, "=");
            self.value(v)
        });
        let last = self.last();
        let term = self.t(K::Semi, ";");
        self.members.push(MemberSpan {
            first_tok: p0,
            last_tok: last,
            term_tok: Some(term),
        });
        ast::Field {
            name: fl.name.clone(),
            field_type: t,
            value,
            annotations,
            doc: None,
            symbol_range: rng(n, n),
            full_range: rng(first, last),
        }
    }
}

pub fn render(m: &FileM) -> Rendered {
    let mut e = Em {
        toks: Vec::new(),
        doc_slots: Vec::new(),
        members: Vec::new(),
    };
    // package
    let kw = e.t(K::Package, "package");
    let (a, b) = e.qname(&m.package);
    e.t(K::Semi, ";");
    let package = ast::Package {
        name: m.package.join("."),
        symbol_range: rng(a, b),
        full_range: rng(kw, b),
    };
    // imports
    let mut imports = Vec::new();
    for im in &m.imports {
        let kw = e.t(K::Import, "import");
        let (a, b) = e.qname(im);
        e.t(K::Semi, ";");
        imports.push(ast::Import {
            path: im[..im.len() - 1].join("."),
            name: im[im.len() - 1].clone(),
            symbol_range: rng(a, b),
            full_range: rng(kw, b),
        });
    }
    // forward declarations
    let mut declared_parcelables = Vec::new();
    for d in &m.decls {
        e.annos(&d.annos);
        let kw = e.t(K::Parcelable, "parcelable");
        let (a, b) = e.qname(&d.name);
        e.t(K::Semi, ";");
        declared_parcelables.push(ast::Import {
            path: d.name[..d.name.len() - 1].join("."),
            name: d.name[d.name.len() - 1].clone(),
            symbol_range: rng(a, b),
            full_range: rng(kw, b),
        });
    }
    // item
    let p0 = e.next();
    e.doc_slots.push(DocSlot {
        first_tok: p0,
        node: DocNode::Item,
    });
    let body_open;
    let body_close;
    let item = match &m.item {
        ItemM::Interface(i) => {
            let annotations = e.annos(&i.annos);
            let first = e.next();
            if i.oneway {
                e.t(K::Oneway, "oneway");
            }
            e.t(K::Interface, "interface");
            let n = e.t(K::Ident, &i.name);
            body_open = e.t(K::LBrace, "{");
            let mut elements = Vec::new();
            for (k, mem) in i.members.iter().enumerate() {
                elements.push(match mem {
                    IMemberM::Method(mm) => ast::InterfaceElement::Method(e.method(mm, k)),
                    IMemberM::Const(c) => ast::InterfaceElement::Const(e.konst(c, k)),
                });
            }
            body_close = e.t(K::RBrace, "}");
            ast::Item::Interface(ast::Interface {
                oneway: i.oneway,
                name: i.name.clone(),
                elements,
                annotations,
                doc: None,
                full_range: rng(first, body_close),
                symbol_range: rng(n, n),
            })
        }
        ItemM::Parcelable(p) => {
            let annotations = e.annos(&p.annos);
            let first = e.t(K::Parcelable, "parcelable");
            let n = e.t(K::Ident, &p.name);
            body_open = e.t(K::LBrace, "{");
            let mut elements = Vec::new();
            for (k, mem) in p.members.iter().enumerate() {
                elements.push(match mem {
                    PMemberM::Field(fl) => ast::ParcelableElement::Field(e.field(fl, k)),
                    PMemberM::Const(c) => ast::ParcelableElement::Const(e.konst(c, k)),
                });
            }
            body_close = e.t(K::RBrace, "}");
            ast::Item::Parcelable(ast::Parcelable {
                name: p.name.clone(),
                elements,
                annotations,
                doc: None,
                full_range: rng(first, body_close),
                symbol_range: rng(n, n),
            })
        }
        ItemM::Enum(en) => {
            let annotations = e.annos(&en.annos);
            let first = e.t(K::Enum, "enum");
            let n = e.t(K::Ident, &en.name);
            body_open = e.t(K::LBrace, "{");
            let mut elements = Vec::new();
            let count = en.elements.len();
            for (k, el) in en.elements.iter().enumerate() {
                let p0 = e.next();
                e.doc_slots.push(DocSlot {
                    first_tok: p0,
                    node: DocNode::Member(k),
                });
                e.annos(&el.annos);
                let ni = e.t(K::Ident, &el.name);
                let value = el.value.as_ref().map(|l| {
                    e.t(K::Eq, "=");
                    e.lit(l);
                    l.text.clone()
                });
                let last = e.last();
                let term = if k + 1 < count || en.trailing_comma {
                    Some(e.t(K::Comma, ","))
                } else {
                    None
                };
                e.members.push(MemberSpan {
                    first_tok: p0,
                    last_tok: last,
                    term_tok: term,
                });
                elements.push(ast::EnumElement {
                    name: el.name.clone(),
                    value,
                    doc: None,
                    symbol_range: rng(ni, ni),
                    full_range: rng(ni, last),
                });
            }
            body_close = e.t(K::RBrace, "}");
            ast::Item::Enum(ast::Enum {
                name: en.name.clone(),
                elements,
                annotations,
                doc: None,
                full_range: rng(first, body_close),
                symbol_range: rng(n, n),
            })
        }
    };
    Rendered {
        toks: e.toks,
        ast: ast::Aidl {
            package,
            imports,
            declared_parcelables,
            item,
        },
        doc_slots: e.doc_slots,
        members: e.members,
        body_open,
        body_close,
    }
}

/// Text + byte span of every token
#[derive(Clone, Debug)]
pub struct Laid {
    pub text: String,
    pub spans: Vec<(usize, usize)>,
    /// number of gaps where a separator had to be inserted to keep the token stream
    pub repaired: usize,
}

/// Concatenate tokens with the given gap strings (gaps.len() == toks.len() + 1).
pub fn lay_out_raw(toks: &[Tok], gaps: &[String]) -> Laid {
    let mut text = String::new();
    let mut spans = Vec::with_capacity(toks.len());
    for (i, t) in toks.iter().enumerate() {
        text.push_str(&gaps[i]);
        let s = text.len();
        text.push_str(&t.text);
        spans.push((s, text.len()));
    }
    text.push_str(&gaps[toks.len()]);
    Laid {
        text,
        spans,
        repaired: 0,
    }
}

/// Lay out and make sure the reference lexer sees exactly the intended tokens; gaps
/// that would merge or split tokens get a space.
pub fn lay_out(toks: &[Tok], gaps: &[String]) -> Laid {
    let l = lay_out_raw(toks, gaps);
    if lexes_as(&l, toks) {
        return l;
    }
    // repair: find empty gaps and fill them one by one where adjacent tokens merge
    let mut gaps: Vec<String> = gaps.to_vec();
    let mut repaired = 0;
    for i in 1..toks.len() {
        if gaps[i].is_empty() {
            let pair = format!("{}{}", toks[i - 1].text, toks[i].text);
            let lx = crate::reflex::lex(&pair);
            let ok = lx.error.is_none()
                && lx.toks.len() == 2
                && lx.toks[0].2 == toks[i - 1].text.len()
                && lx.toks[0].0 == toks[i - 1].k
                && lx.toks[1].0 == toks[i].k;
            if !ok {
                gaps[i] = " ".to_owned();
                repaired += 1;
            }
        }
    }
    let mut l = lay_out_raw(toks, &gaps);
    if !lexes_as(&l, toks) {
        // last resort: a space in every empty inner gap
        for g in gaps.iter_mut().take(toks.len()).skip(1) {
            if g.is_empty() {
                *g = " ".to_owned();
                repaired += 1;
            }
        }
        l = lay_out_raw(toks, &gaps);
    }
    l.repaired = repaired;
    l
}

pub fn lexes_as(l: &Laid, toks: &[Tok]) -> bool {
    let lx = crate::reflex::lex(&l.text);
    lx.error.is_none()
        && lx.toks.len() == toks.len()
        && lx
            .toks
            .iter()
            .zip(toks.iter().zip(l.spans.iter()))
            .all(|(a, (t, sp))| a.0 == t.k && a.1 == sp.0 && a.2 == sp.1)
}

fn resolve_pos(p: &mut ast::Position, text: &str, spans: &[(usize, usize)]) {
    if p.offset == LOOSE {
        return;
    }
    let i = p.offset / 2;
    let off = if p.offset % 2 == 0 {
        spans[i].0
    } else {
        spans[i].1
    };
    *p = pos::position(text, off);
}

/// Turn placeholder ranges into real ones (loose ranges stay marked)
pub fn resolve(placeholder: &ast::Aidl, l: &Laid) -> ast::Aidl {
    let mut a = placeholder.clone();
    astvisit::visit_mut(&mut a, &mut |_, ev| {
        if let Ev::Range(_, _, r) = ev {
            resolve_pos(&mut r.start, &l.text, &l.spans);
            resolve_pos(&mut r.end, &l.text, &l.spans);
        }
    });
    a
}

/// Token index whose span starts / ends at the given offset
pub fn tok_starting_at(spans: &[(usize, usize)], off: usize) -> Option<usize> {
    spans.binary_search_by_key(&off, |s| s.0).ok()
}
pub fn tok_ending_at(spans: &[(usize, usize)], off: usize) -> Option<usize> {
    spans.binary_search_by_key(&off, |s| s.1).ok()
}
