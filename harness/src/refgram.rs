//! Reference grammar: the context-free grammar of src/aidl.lalrpop transcribed as data
//! (without the error-recovery alternatives) and an Earley recogniser that answers,
//! for a sequence of token kinds: accepted, or the index of the first non-viable token
//! (or "unexpected end").

use crate::tok::K;
use std::collections::HashSet;

#[derive(Clone, Copy, Debug, PartialEq, Eq, Hash)]
pub enum Sym {
    T(K),
    N(usize),
}

#[derive(Clone, Debug, PartialEq, Eq)]
pub enum Verdict {
    Accept,
    /// index of the first token after which no sentence has the consumed tokens as prefix
    ErrorAt(usize),
    /// all tokens form a viable prefix but not a sentence
    UnexpectedEnd,
}

pub struct Grammar {
    pub names: Vec<&'static str>,
    pub prods: Vec<(usize, Vec<Sym>)>,
    pub by_lhs: Vec<Vec<usize>>,
    pub nullable: Vec<bool>,
    pub start: usize,
}

struct B {
    names: Vec<&'static str>,
    prods: Vec<(usize, Vec<Sym>)>,
}

impl B {
    fn nt(&mut self, name: &'static str) -> usize {
        if let Some(i) = self.names.iter().position(|n| *n == name) {
            return i;
        }
        self.names.push(name);
        self.names.len() - 1
    }
    /// rule in a tiny text format: upper-case-initial words that are token names map to
    /// terminals via `term`, everything else is a nonterminal
    fn rule(&mut self, lhs: &'static str, rhs: &[&'static str]) {
        let l = self.nt(lhs);
        let syms = rhs
            .iter()
            .map(|s| match term(s) {
                Some(k) => Sym::T(k),
                None => Sym::N(self.nt(s)),
            })
            .collect();
        self.prods.push((l, syms));
    }
}

fn term(s: &str) -> Option<K> {
    Some(match s {
        "PACKAGE" => K::Package,
        "IMPORT" => K::Import,
        "INTERFACE" => K::Interface,
        "PARCELABLE" => K::Parcelable,
        "ENUM" => K::Enum,
        "ONEWAY" => K::Oneway,
        "CONST" => K::Const,
        "DIRECTION" => K::Direction,
        "VOID" => K::Void,
        "PRIMITIVE" => K::Primitive,
        "STRING" => K::StringT,
        "CHAR_SEQUENCE" => K::CharSequence,
        "LIST" => K::List,
        "MAP" => K::Map,
        "QUOTED_STRING" => K::QuotedString,
        "BOOLEAN" => K::Boolean,
        "ANNOTATION" => K::Annotation,
        ";" => K::Semi,
        "," => K::Comma,
        "{" => K::LBrace,
        "}" => K::RBrace,
        "(" => K::LParen,
        ")" => K::RParen,
        "[" => K::LBracket,
        "]" => K::RBracket,
        "<" => K::Lt,
        ">" => K::Gt,
        "=" => K::Eq,
        "." => K::Dot,
        "IDENT" => K::Ident,
        "INTEGER" => K::Integer,
        "FLOAT" => K::Float,
        _ => return None,
    })
}

pub fn grammar() -> Grammar {
    let mut b = B {
        names: Vec::new(),
        prods: Vec::new(),
    };
    b.rule("Aidl", &["Package", "Imports", "Decls", "Item"]);
    b.rule("Package", &["PACKAGE", "QName", ";"]);
    b.rule("Imports", &[]);
    b.rule("Imports", &["Imports", "Import"]);
    b.rule("Import", &["IMPORT", "IdDots", "IDENT", ";"]);
    b.rule("IdDots", &["IDENT", "."]);
    b.rule("IdDots", &["IdDots", "IDENT", "."]);
    b.rule("QName", &["IDENT"]);
    b.rule("QName", &["QName", ".", "IDENT"]);
    b.rule("Decls", &[]);
    b.rule("Decls", &["Decls", "Decl"]);
    b.rule("Decl", &["Annos", "PARCELABLE", "QName", ";"]);
    b.rule("Item", &["Interface"]);
    b.rule("Item", &["Parcelable"]);
    b.rule("Item", &["Enum"]);
    b.rule("Interface", &["Annos", "INTERFACE", "IDENT", "{", "IElems", "}"]);
    b.rule("Interface", &["Annos", "ONEWAY", "INTERFACE", "IDENT", "{", "IElems", "}"]);
    b.rule("IElems", &[]);
    b.rule("IElems", &["IElems", "Method"]);
    b.rule("IElems", &["IElems", "Const"]);
    b.rule("Parcelable", &["Annos", "PARCELABLE", "IDENT", "{", "PElems", "}"]);
    b.rule("PElems", &[]);
    b.rule("PElems", &["PElems", "Field"]);
    b.rule("PElems", &["PElems", "Const"]);
    b.rule("Enum", &["Annos", "ENUM", "IDENT", "{", "EnumList", "}"]);
    b.rule("EnumList", &["EnumPrefix"]);
    b.rule("EnumList", &["EnumPrefix", "EnumElement"]);
    b.rule("EnumPrefix", &[]);
    b.rule("EnumPrefix", &["EnumPrefix", "EnumElement", ","]);
    b.rule("EnumElement", &["Annos", "IDENT"]);
    b.rule("EnumElement", &["Annos", "IDENT", "=", "Lit"]);
    b.rule("Method", &["Annos", "OptOneway", "Type", "IDENT", "(", "ArgList", ")", "OptCode", ";"]);
    b.rule("OptOneway", &[]);
    b.rule("OptOneway", &["ONEWAY"]);
    b.rule("OptCode", &[]);
    b.rule("OptCode", &["=", "INTEGER"]);
    b.rule("ArgList", &["ArgPrefix"]);
    b.rule("ArgList", &["ArgPrefix", "Arg"]);
    b.rule("ArgPrefix", &[]);
    b.rule("ArgPrefix", &["ArgPrefix", "Arg", ","]);
    b.rule("Arg", &["OptDirection", "Annos", "Type", "OptIdent"]);
    b.rule("OptDirection", &[]);
    b.rule("OptDirection", &["DIRECTION"]);
    b.rule("OptIdent", &[]);
    b.rule("OptIdent", &["IDENT"]);
    b.rule("Const", &["Annos", "CONST", "Type", "IDENT", "=", "Value", ";"]);
    b.rule("Field", &["Annos", "Type", "IDENT", ";"]);
    b.rule("Field", &["Annos", "Type", "IDENT", "=", "Value", ";"]);
    b.rule("Type", &["VOID"]);
    b.rule("Type", &["PRIMITIVE"]);
    b.rule("Type", &["STRING"]);
    b.rule("Type", &["CHAR_SEQUENCE"]);
    b.rule("Type", &["Type", "[", "]"]);
    b.rule("Type", &["LIST", "<", "Type", ">"]);
    b.rule("Type", &["LIST"]);
    b.rule("Type", &["MAP", "<", "Type", ",", "Type", ">"]);
    b.rule("Type", &["MAP"]);
    b.rule("Type", &["QName"]);
    b.rule("Annos", &[]);
    b.rule("Annos", &["Annos", "Anno"]);
    b.rule("Anno", &["ANNOTATION"]);
    b.rule("Anno", &["ANNOTATION", "(", "ParamList", ")"]);
    b.rule("ParamList", &["ParamPrefix"]);
    b.rule("ParamList", &["ParamPrefix", "Param"]);
    b.rule("ParamPrefix", &[]);
    b.rule("ParamPrefix", &["ParamPrefix", "Param", ","]);
    b.rule("Param", &["IDENT"]);
    b.rule("Param", &["IDENT", "=", "Lit"]);
    b.rule("Lit", &["INTEGER"]);
    b.rule("Lit", &["FLOAT"]);
    b.rule("Lit", &["QUOTED_STRING"]);
    b.rule("Lit", &["BOOLEAN"]);
    b.rule("Value", &["Lit"]);
    b.rule("Value", &["{", "}"]);
    b.rule("Value", &["{", "Values1", "CommaValues", "}"]);
    b.rule("Value", &["{", "Values1", "CommaValues", ",", "}"]);
    b.rule("Value", &["IDENT", ".", "IDENT"]);
    b.rule("Values1", &["Value"]);
    b.rule("Values1", &["Values1", "Value"]);
    b.rule("CommaValues", &[]);
    b.rule("CommaValues", &["CommaValues", ",", "Value"]);

    let n = b.names.len();
    let mut by_lhs = vec![Vec::new(); n];
    for (i, (l, _)) in b.prods.iter().enumerate() {
        by_lhs[*l].push(i);
    }
    let mut nullable = vec![false; n];
    loop {
        let mut changed = false;
        for (l, rhs) in &b.prods {
            if !nullable[*l]
                && rhs.iter().all(|s| match s {
                    Sym::T(_) => false,
                    Sym::N(x) => nullable[*x],
                })
            {
                nullable[*l] = true;
                changed = true;
            }
        }
        if !changed {
            break;
        }
    }
    let start = 0;
    Grammar {
        names: b.names,
        prods: b.prods,
        by_lhs,
        nullable,
        start,
    }
}

#[derive(Clone, Copy, PartialEq, Eq, Hash, Debug)]
struct It {
    prod: u16,
    dot: u8,
    origin: u32,
}

impl Grammar {
    pub fn nt_index(&self, name: &str) -> Option<usize> {
        self.names.iter().position(|n| *n == name)
    }

    /// Earley recognition of `input` from nonterminal `start`
    pub fn recognize_from(&self, start: usize, input: &[K]) -> Verdict {
        let n = input.len();
        let mut sets: Vec<Vec<It>> = Vec::with_capacity(n + 1);
        let mut seen: HashSet<It> = HashSet::new();
        let mut cur: Vec<It> = Vec::new();
        for p in &self.by_lhs[start] {
            let it = It {
                prod: *p as u16,
                dot: 0,
                origin: 0,
            };
            if seen.insert(it) {
                cur.push(it);
            }
        }
        for i in 0..=n {
            // closure of cur
            let mut k = 0;
            while k < cur.len() {
                let it = cur[k];
                k += 1;
                let (lhs, rhs) = &self.prods[it.prod as usize];
                if (it.dot as usize) < rhs.len() {
                    if let Sym::N(x) = rhs[it.dot as usize] {
                        // predict
                        for p in &self.by_lhs[x] {
                            let ni = It {
                                prod: *p as u16,
                                dot: 0,
                                origin: i as u32,
                            };
                            if seen.insert(ni) {
                                cur.push(ni);
                            }
                        }
                        if self.nullable[x] {
                            let ni = It {
                                dot: it.dot + 1,
                                ..it
                            };
                            if seen.insert(ni) {
                                cur.push(ni);
                            }
                        }
                    }
                } else {
                    // complete
                    let origin = it.origin as usize;
                    let parents: Vec<It> = if origin == i {
                        cur.clone()
                    } else {
                        sets[origin].clone()
                    };
                    for pit in parents {
                        let (_, prhs) = &self.prods[pit.prod as usize];
                        if (pit.dot as usize) < prhs.len() && prhs[pit.dot as usize] == Sym::N(*lhs) {
                            let ni = It {
                                dot: pit.dot + 1,
                                ..pit
                            };
                            if seen.insert(ni) {
                                cur.push(ni);
                            }
                        }
                    }
                }
            }
            if i == n {
                let accepted = cur.iter().any(|it| {
                    let (lhs, rhs) = &self.prods[it.prod as usize];
                    *lhs == start && it.origin == 0 && it.dot as usize == rhs.len()
                });
                return if accepted { Verdict::Accept } else { Verdict::UnexpectedEnd };
            }
            // scan
            let tok = input[i];
            let mut next: Vec<It> = Vec::new();
            seen.clear();
            for it in &cur {
                let (_, rhs) = &self.prods[it.prod as usize];
                if (it.dot as usize) < rhs.len() && rhs[it.dot as usize] == Sym::T(tok) {
                    let ni = It {
                        dot: it.dot + 1,
                        ..*it
                    };
                    if seen.insert(ni) {
                        next.push(ni);
                    }
                }
            }
            if next.is_empty() {
                return Verdict::ErrorAt(i);
            }
            sets.push(std::mem::replace(&mut cur, next));
        }
        unreachable!()
    }

    pub fn recognize(&self, input: &[K]) -> Verdict {
        self.recognize_from(self.start, input)
    }

    /// Terminals that can follow the viable prefix `input` (empty when not viable);
    /// second component: may the input end here (prefix is a sentence)?
    pub fn expected_after(&self, input: &[K]) -> (Vec<K>, bool) {
        let mut out = Vec::new();
        for k in crate::tok::ALL_KINDS {
            let mut v = input.to_vec();
            v.push(k);
            match self.recognize(&v) {
                Verdict::Accept | Verdict::UnexpectedEnd => out.push(k),
                Verdict::ErrorAt(i) if i < input.len() => return (vec![], false),
                _ => {}
            }
        }
        (out, self.recognize(input) == Verdict::Accept)
    }
}

impl Grammar {
    /// minimal derivation depth of every nonterminal (for terminating random derivations)
    fn min_depths(&self) -> Vec<usize> {
        let n = self.names.len();
        let mut d = vec![usize::MAX; n];
        loop {
            let mut changed = false;
            for (l, rhs) in &self.prods {
                let mut m = 0usize;
                let mut ok = true;
                for sy in rhs {
                    if let Sym::N(x) = sy {
                        if d[*x] == usize::MAX {
                            ok = false;
                            break;
                        }
                        m = m.max(d[*x]);
                    }
                }
                if ok && m + 1 < d[*l] {
                    d[*l] = m + 1;
                    changed = true;
                }
            }
            if !changed {
                return d;
            }
        }
    }

    /// Random sentence of the grammar (token kinds), by random leftmost derivation with a
    /// depth budget; every choice comes from the choice source.
    pub fn random_sentence(&self, s: &mut crate::src::Src, budget: usize) -> Vec<K> {
        let md = self.min_depths();
        let mut out = Vec::new();
        self.derive(self.start, budget, &md, s, &mut out);
        out
    }

    fn derive(&self, nt: usize, budget: usize, md: &[usize], s: &mut crate::src::Src, out: &mut Vec<K>) {
        // productions that can still terminate within the budget
        let cands: Vec<usize> = self.by_lhs[nt]
            .iter()
            .copied()
            .filter(|p| {
                self.prods[*p].1.iter().all(|sy| match sy {
                    Sym::T(_) => true,
                    Sym::N(x) => md[*x] < budget.max(1),
                })
            })
            .collect();
        let p = if cands.is_empty() {
            // out of budget: take the production with the smallest depth
            *self.by_lhs[nt]
                .iter()
                .min_by_key(|p| {
                    self.prods[**p].1.iter().map(|sy| match sy {
                        Sym::T(_) => 0,
                        Sym::N(x) => md[*x],
                    }).max().unwrap_or(0)
                })
                .unwrap()
        } else {
            *s.pick(&cands)
        };
        for sy in self.prods[p].1.clone() {
            match sy {
                Sym::T(k) => out.push(k),
                Sym::N(x) => self.derive(x, budget.saturating_sub(1), md, s, out),
            }
        }
    }
}

thread_local! {
    static G: Grammar = grammar();
}

pub fn with_grammar<T>(f: impl FnOnce(&Grammar) -> T) -> T {
    G.with(|g| f(g))
}

/// Verdict of the reference (lexer + grammar) on a text
#[derive(Clone, Debug, PartialEq, Eq)]
pub enum TextVerdict {
    WellFormed,
    /// unlexable character at this offset (no earlier grammar error)
    LexError(usize),
    /// token index
    SyntaxErrorAt(usize),
    UnexpectedEnd,
    Undecided,
}

pub fn text_verdict(text: &str) -> (TextVerdict, crate::reflex::Lexed) {
    let lx = crate::reflex::lex(text);
    if lx.undecided {
        return (TextVerdict::Undecided, lx);
    }
    let kinds: Vec<K> = lx.toks.iter().map(|t| t.0).collect();
    let v = with_grammar(|g| g.recognize(&kinds));
    let tv = match (v, lx.error) {
        (Verdict::ErrorAt(i), _) => TextVerdict::SyntaxErrorAt(i),
        (_, Some(off)) => TextVerdict::LexError(off),
        (Verdict::Accept, None) => TextVerdict::WellFormed,
        (Verdict::UnexpectedEnd, None) => TextVerdict::UnexpectedEnd,
    };
    (tv, lx)
}

#[cfg(test)]
mod tests {
    use super::*;

    fn v(s: &str) -> TextVerdict {
        text_verdict(s).0
    }

    #[test]
    fn basics() {
        assert_eq!(v("package a; interface I {}"), TextVerdict::WellFormed);
        assert_eq!(v("package a.b; import a.B; parcelable X; @A(x=1,) oneway interface I { void f(in int[] a, List<String>) = 3; const int X = {1 2, 3,}; }"), TextVerdict::WellFormed);
        assert_eq!(v("package a; enum E { A = 1, B, }"), TextVerdict::WellFormed);
        assert_eq!(v("package a; enum E { , }"), TextVerdict::SyntaxErrorAt(6));
        assert_eq!(v("package a; import B; interface I {}"), TextVerdict::SyntaxErrorAt(5));
        assert_eq!(v("package a; interface I {"), TextVerdict::UnexpectedEnd);
        assert_eq!(v("package a; interface I {} x"), TextVerdict::SyntaxErrorAt(7));
        assert_eq!(v("interface I {}"), TextVerdict::SyntaxErrorAt(0));
        assert_eq!(v("package a; parcelable P { Map<String, List<p.Foo>>[] x = a.b; }"), TextVerdict::WellFormed);
        assert_eq!(v("package for; interface I {}"), TextVerdict::SyntaxErrorAt(1));
    }
}
