//! Generators: decode models, layouts and projects from a choice source.

use crate::model::*;
use crate::src::Src;
use crate::tok::PRIMITIVES;

/// Identifier pool: ordinary names plus near-keywords; never a keyword / reserved word.
pub const IDENTS: &[&str] = &[
    "a", "b", "x", "foo", "Bar", "inout2", "in_", "Listing", "Strings", "int_", "interfaceX",
    "voidx", "_", "__x", "A1", "forx", "trueish", "MY_CONST", "Mapx", "List1", "onewayy",
    "constant", "parcelables", "enum_", "importx", "packages", "outx", "CharSequence2", "y", "z9",
    // words that are keywords elsewhere (Rust, Kotlin, Python, C++, Java) but plain identifiers here
    "type", "match", "ref", "self", "use", "mod", "move", "crate", "final", "trait", "dyn", "where", "as", "fn", "let", "mut", "impl",
    "pub", "struct", "loop", "async", "await", "yield", "abstract", "extends", "implements", "native", "super", "null", "var", "val",
    "def", "object", "string", "list", "map", "override", "virtual", "template", "union", "unsigned", "namespace", "using", "delete",
    "operator", "typedef", "inline", "extern", "auto", "bool", "throws", "synchronized", "transient", "instanceof", "None", "and", "not",
    // case pairs
    "X", "Type", "Foo", "foo", "A", "B",
];

pub const PKG_SEGS: &[&str] = &["p", "q", "com", "bwa", "in_", "a1", "other", "os_", "x"];

pub const INT_LITS: &[&str] = &["0", "1", "42", "007", "4294967295", "12345678901234567890"];
pub const FLOAT_LITS: &[&str] = &[
    "1.5", "-.5f", "+7", "-5", "1f", ".5", "0.0", "\u{0663}.\u{0661}\u{0664}", "\u{FF11}\u{FF12}", "1\u{0967}",
    "+.5", "-0", "12.5f",
];
pub const STR_LITS: &[&str] = &[
    "\"\"", "\"abc\"", "\"\u{e9}\"", "\"a b\"", "\"//x\"", "\"/* y */\"", "\"\u{65e5}\u{672c}\"", "\"@A\"", "\"{;}\"",
    "\"\\\"",
];
pub const BOOL_LITS: &[&str] = &["true", "false"];
pub const ANNOS: &[&str] = &["@A", "@nullable", "@utf8InCpp", "@VintfStability", "@_x", "@in", "@interface", "@Backing"];
pub const CODES: &[&str] = &["0", "1", "2", "7", "007", "42", "4294967295", "16777215"];
pub const OVERFLOW_CODES: &[&str] = &["4294967296", "9999999999", "99999999999999999999999"];

#[derive(Clone, Debug)]
pub struct GenCfg {
    pub max_members: usize,
    pub max_args: usize,
    pub max_depth: usize,
    pub allow_void_anywhere: bool,
    pub allow_overflow_code: bool,
    /// custom type names: None => identifier pool; Some => fixed candidate list
    pub type_names: Option<Vec<Name>>,
    pub annos: bool,
    pub method_names: Option<Vec<&'static str>>,
    pub values: bool,
}

impl Default for GenCfg {
    fn default() -> Self {
        GenCfg {
            max_members: 5,
            max_args: 4,
            max_depth: 4,
            allow_void_anywhere: true,
            allow_overflow_code: false,
            type_names: None,
            annos: true,
            method_names: None,
            values: true,
        }
    }
}

pub fn ident(s: &mut Src) -> String {
    (*s.pick(IDENTS)).to_owned()
}

pub fn qname(s: &mut Src, min: usize, max: usize) -> Name {
    let n = s.range(min, max);
    (0..n)
        .map(|i| {
            if i + 1 == n {
                ident(s)
            } else {
                (*s.pick(PKG_SEGS)).to_owned()
            }
        })
        .collect()
}

pub fn lit(s: &mut Src) -> LitM {
    match s.below(4) {
        0 => LitM {
            kind: LitKind::Int,
            text: (*s.pick(INT_LITS)).to_owned(),
        },
        1 => LitM {
            kind: LitKind::Str,
            text: (*s.pick(STR_LITS)).to_owned(),
        },
        2 => LitM {
            kind: LitKind::Bool,
            text: (*s.pick(BOOL_LITS)).to_owned(),
        },
        _ => LitM {
            kind: LitKind::Float,
            text: (*s.pick(FLOAT_LITS)).to_owned(),
        },
    }
}

pub fn value(s: &mut Src, depth: usize) -> ValueM {
    let w: &[u32] = if depth >= 2 { &[10, 0, 0, 2] } else { &[10, 2, 4, 3] };
    match s.weighted(w) {
        0 => ValueM::Lit(lit(s)),
        1 => ValueM::EmptyBraces,
        2 => {
            let nf = s.range(1, 3);
            let first = (0..nf).map(|_| value(s, depth + 1)).collect();
            let nr = s.count(3);
            let rest = (0..nr).map(|_| value(s, depth + 1)).collect();
            ValueM::Braces {
                first,
                rest,
                trailing_comma: s.flip(),
            }
        }
        _ => ValueM::Ref(ident(s), ident(s)),
    }
}

pub fn annos(s: &mut Src, cfg: &GenCfg) -> Vec<AnnoM> {
    if !cfg.annos {
        return vec![];
    }
    let n = s.weighted(&[12, 3, 1]);
    (0..n)
        .map(|_| {
            let name = (*s.pick(ANNOS)).to_owned();
            let params = if s.chance(1, 3) {
                let k = s.count(3);
                let mut keys: Vec<String> = Vec::new();
                let mut ps = Vec::new();
                for _ in 0..k {
                    let mut key = ident(s);
                    // sometimes a key that differs from the previous one only by case
                    if let Some(prev) = keys.last() {
                        if s.chance(1, 4) {
                            let p: &String = prev;
                            let flipped: String = p
                                .chars()
                                .enumerate()
                                .map(|(i, c)| if i == 0 { if c.is_lowercase() { c.to_ascii_uppercase() } else { c.to_ascii_lowercase() } } else { c })
                                .collect();
                            if crate::tok::classify_word(&flipped) == crate::tok::K::Ident {
                                key = flipped;
                            }
                        }
                    }
                    if keys.contains(&key) {
                        continue; // duplicate keys are not generated
                    }
                    keys.push(key.clone());
                    let v = if s.flip() { Some(lit(s)) } else { None };
                    ps.push((key, v));
                }
                Some(ps)
            } else {
                None
            };
            AnnoM {
                name,
                params,
                trailing_comma: s.chance(1, 4),
            }
        })
        .collect()
}

pub fn custom_name(s: &mut Src, cfg: &GenCfg) -> Name {
    match &cfg.type_names {
        Some(v) => s.pick(v).clone(),
        None => qname(s, 1, 3),
    }
}

pub fn ty(s: &mut Src, cfg: &GenCfg, depth: usize, allow_void: bool) -> TyM {
    // leaves first (simplest), then containers
    let leaf_only = depth >= cfg.max_depth;
    let w: [u32; 10] = if leaf_only {
        [6, 4, 6, 1, 2, 0, 0, 1, 0, 1]
    } else {
        [6, 4, 6, 1, 2, 4, 4, 1, 3, 1]
    };
    match s.weighted(&w) {
        0 => TyM::Prim((*s.pick(PRIMITIVES)).to_owned()),
        1 => TyM::Str,
        2 => TyM::Custom(custom_name(s, cfg)),
        3 => {
            if allow_void || cfg.allow_void_anywhere {
                TyM::Void
            } else {
                TyM::Str
            }
        }
        4 => TyM::CharSeq,
        5 => TyM::Array(Box::new(ty(s, cfg, depth + 1, false))),
        6 => TyM::List(Some(Box::new(ty(s, cfg, depth + 1, false)))),
        7 => TyM::List(None),
        8 => TyM::Map(Some(Box::new((
            ty(s, cfg, depth + 1, false),
            ty(s, cfg, depth + 1, false),
        )))),
        _ => TyM::Map(None),
    }
}

pub fn method_name(s: &mut Src, cfg: &GenCfg) -> String {
    match &cfg.method_names {
        Some(v) => (*s.pick(v)).to_owned(),
        None => ident(s),
    }
}

pub fn method(s: &mut Src, cfg: &GenCfg) -> MethodM {
    let a = annos(s, cfg);
    let oneway = s.chance(1, 4);
    let ret = if s.chance(1, 2) {
        ty(s, cfg, 0, true)
    } else {
        TyM::Void
    };
    let name = method_name(s, cfg);
    let na = s.count(cfg.max_args);
    let args = (0..na)
        .map(|_| {
            let dir = match s.weighted(&[4, 3, 2, 2]) {
                0 => None,
                1 => Some(DirM::In),
                2 => Some(DirM::Out),
                _ => Some(DirM::InOut),
            };
            let annos = if s.chance(1, 5) { annos(s, cfg) } else { vec![] };
            let t = ty(s, cfg, 0, false);
            let name = if s.chance(3, 4) { Some(ident(s)) } else { None };
            ArgM {
                dir,
                annos,
                ty: t,
                name,
            }
        })
        .collect();
    let code = if s.chance(1, 3) {
        if cfg.allow_overflow_code && s.chance(1, 4) {
            Some((*s.pick(OVERFLOW_CODES)).to_owned())
        } else {
            Some((*s.pick(CODES)).to_owned())
        }
    } else {
        None
    };
    MethodM {
        annos: a,
        oneway,
        ret,
        name,
        args,
        trailing_comma: s.chance(1, 5),
        code,
    }
}

pub fn konst(s: &mut Src, cfg: &GenCfg) -> ConstM {
    // with a small method-name pool, constants sometimes share a name with a method
    let name = match &cfg.method_names {
        Some(v) if s.chance(1, 2) => (*s.pick(v)).to_owned(),
        _ => ident(s),
    };
    ConstM {
        annos: annos(s, cfg),
        ty: ty(s, cfg, 1, false),
        name,
        value: if cfg.values {
            value(s, 0)
        } else {
            ValueM::Lit(LitM {
                kind: LitKind::Int,
                text: "1".into(),
            })
        },
    }
}

pub fn field(s: &mut Src, cfg: &GenCfg) -> FieldM {
    FieldM {
        annos: annos(s, cfg),
        ty: ty(s, cfg, 0, false),
        name: ident(s),
        value: if cfg.values && s.chance(1, 3) {
            Some(value(s, 0))
        } else {
            None
        },
    }
}

pub fn item(s: &mut Src, cfg: &GenCfg, name: String, kind: usize) -> ItemM {
    match kind {
        0 => {
            let a = annos(s, cfg);
            let oneway = s.chance(1, 5);
            let n = s.count(cfg.max_members);
            let members = (0..n)
                .map(|_| {
                    if s.chance(1, 5) {
                        IMemberM::Const(konst(s, cfg))
                    } else {
                        IMemberM::Method(method(s, cfg))
                    }
                })
                .collect();
            ItemM::Interface(InterfaceM {
                annos: a,
                oneway,
                name,
                members,
            })
        }
        1 => {
            let a = annos(s, cfg);
            let n = s.count(cfg.max_members);
            let members = (0..n)
                .map(|_| {
                    if s.chance(1, 5) {
                        PMemberM::Const(konst(s, cfg))
                    } else {
                        PMemberM::Field(field(s, cfg))
                    }
                })
                .collect();
            ItemM::Parcelable(ParcelableM {
                annos: a,
                name,
                members,
            })
        }
        _ => {
            let a = annos(s, cfg);
            let n = s.count(cfg.max_members);
            let elements: Vec<EnumElM> = (0..n)
                .map(|_| EnumElM {
                    annos: if s.chance(1, 6) { annos(s, cfg) } else { vec![] },
                    name: ident(s),
                    value: if s.chance(1, 2) { Some(lit(s)) } else { None },
                })
                .collect();
            let trailing_comma = !elements.is_empty() && s.chance(1, 3);
            ItemM::Enum(EnumM {
                annos: a,
                name,
                elements,
                trailing_comma,
            })
        }
    }
}

/// A stand-alone well-formed document over the identifier pool
pub fn file(s: &mut Src, cfg: &GenCfg) -> FileM {
    let package = {
        let n = s.range(1, 4);
        (0..n).map(|_| (*s.pick(PKG_SEGS)).to_owned()).collect()
    };
    let ni = s.count(3);
    let imports = (0..ni).map(|_| qname(s, 2, 4)).collect();
    let nd = s.weighted(&[8, 3, 1]);
    let decls = (0..nd)
        .map(|_| DeclM {
            annos: if s.chance(1, 5) { annos(s, cfg) } else { vec![] },
            name: qname(s, 1, 3),
        })
        .collect();
    let kind = s.weighted(&[5, 3, 2]);
    let name = ident(s);
    let item = item(s, cfg, name, kind);
    FileM {
        package,
        imports,
        decls,
        item,
    }
}

// ---------------------------------------------------------------------------
// Layouts

#[derive(Clone, Debug)]
pub struct LayoutCfg {
    pub unicode_ws: bool,
    pub comments: bool,
    pub doc_comments: bool,
    pub lone_cr: bool,
    pub multibyte: bool,
    pub no_sep: bool,
    /// make line breaks (and therefore multi-line constructs) much more likely
    pub newline_heavy: bool,
}

impl Default for LayoutCfg {
    fn default() -> Self {
        LayoutCfg {
            unicode_ws: true,
            comments: true,
            doc_comments: true,
            lone_cr: true,
            multibyte: true,
            no_sep: true,
            newline_heavy: false,
        }
    }
}

pub const UNICODE_WS: &[&str] = &[
    "\u{0085}", "\u{00A0}", "\u{1680}", "\u{2000}", "\u{2001}", "\u{2002}", "\u{2003}", "\u{2004}", "\u{2005}",
    "\u{2006}", "\u{2007}", "\u{2008}", "\u{2009}", "\u{200A}", "\u{2028}", "\u{2029}", "\u{202F}", "\u{205F}",
    "\u{3000}", "\u{000B}", "\u{000C}",
];

const COMMENT_FRAGS_ASCII: &[&str] = &[
    "", "x", " a b ", "*", " * ", "/", "\"", "interface", "@tag", " ", "//", "/*", "import a.b;", "}", "'", "\\",
    "TODO: fix", "=", "1",
];
const COMMENT_FRAGS_MB: &[&str] = &[
    "\u{e9}", "Gr\u{f6}\u{df}e", "\u{65e5}\u{672c}\u{8a9e}", "\u{1F468}\u{200D}\u{1F469}\u{200D}\u{1F467}", "e\u{0301}",
    "\u{3000}", "\u{00A0}", "\u{FEFF}", "\u{0663}",
];

fn comment_text(s: &mut Src, cfg: &LayoutCfg) -> String {
    let n = s.count(3);
    let mut t = String::new();
    for _ in 0..n {
        if cfg.multibyte && s.chance(1, 3) {
            t.push_str(*s.pick(COMMENT_FRAGS_MB));
        } else {
            t.push_str(*s.pick(COMMENT_FRAGS_ASCII));
        }
    }
    t
}

pub fn newline(s: &mut Src, cfg: &LayoutCfg) -> &'static str {
    match s.weighted(&[6, 3, if cfg.lone_cr { 1 } else { 0 }]) {
        0 => "\n",
        1 => "\r\n",
        _ => "\r",
    }
}

/// One piece of trivia
fn trivia_piece(s: &mut Src, cfg: &LayoutCfg, last_gap: bool) -> String {
    let w = [
        10u32,                                    // space
        if cfg.newline_heavy { 24 } else { 4 },   // newline
        2,                                        // tab
        if cfg.unicode_ws { 3 } else { 0 },       // unicode ws
        if cfg.comments { 3 } else { 0 },         // line comment
        if cfg.comments { 3 } else { 0 },         // block comment
        if cfg.doc_comments { 1 } else { 0 },     // doc comment
    ];
    match s.weighted(&w) {
        0 => " ".to_owned(),
        1 => newline(s, cfg).to_owned(),
        2 => "\t".to_owned(),
        3 => (*s.pick(UNICODE_WS)).to_owned(),
        4 => {
            let t = comment_text(s, cfg);
            if last_gap && s.chance(1, 4) {
                format!("//{t}")
            } else {
                format!("//{t}{}", newline(s, cfg))
            }
        }
        5 => {
            let t = comment_text(s, cfg).replace("*/", "* /");
            // body must not create "*/" with the closing delimiter's own star: "/*" + t + "*/"
            // is always terminated at the first "*/", which is at or before our closer
            format!("/*{t}*/")
        }
        _ => {
            let mut t = comment_text(s, cfg).replace("*/", "* /");
            if t.starts_with('/') {
                t.insert(0, ' '); // "/**" + "/" would close the comment at once
            }
            format!("/**{t}*/")
        }
    }
}

pub fn gap(s: &mut Src, cfg: &LayoutCfg, last_gap: bool) -> String {
    // number of pieces: 1 most of the time; 0 (no separator) sometimes
    let w = [14u32, if cfg.no_sep { 3 } else { 0 }, if cfg.newline_heavy { 12 } else { 4 }, 2];
    match s.weighted(&w) {
        0 => " ".to_owned(),
        1 => String::new(),
        2 => trivia_piece(s, cfg, last_gap),
        _ => {
            let n = s.range(2, 4);
            let mut g = String::new();
            for i in 0..n {
                g.push_str(&trivia_piece(s, cfg, last_gap && i + 1 == n));
            }
            g
        }
    }
}

pub fn gaps(s: &mut Src, cfg: &LayoutCfg, ntoks: usize) -> Vec<String> {
    (0..=ntoks).map(|i| gap(s, cfg, i == ntoks)).collect()
}

pub fn plain_gaps(ntoks: usize) -> Vec<String> {
    let mut v = vec![" ".to_owned(); ntoks + 1];
    v[0] = String::new();
    v[ntoks] = "\n".to_owned();
    v
}

// ---------------------------------------------------------------------------
// Projects over a small adversarial name space

pub const U_PKGS: &[&[&str]] = &[&["p"], &["p", "q"], &["q"], &["other", "p"], &["android", "os"], &["android"]];
pub const U_NAMES: &[&str] = &["Foo", "XFoo", "FooX", "FooFoo", "Bar", "IBinder", "ParcelFileDescriptor", "Baz"];
pub const BUILTIN_QNAMES: &[&str] = &[
    "android.os.IBinder",
    "java.os.FileDescriptor",
    "android.os.ParcelFileDescriptor",
    "android.os.ParcelableHolder",
];
pub const BUILTIN_NAMES: &[&str] = &["IBinder", "FileDescriptor", "ParcelFileDescriptor", "ParcelableHolder"];

fn split(q: &str) -> Name {
    q.split('.').map(|x| x.to_owned()).collect()
}

fn universe_key(s: &mut Src) -> Name {
    let p = s.pick(U_PKGS);
    let n = s.pick(U_NAMES);
    let mut v: Name = p.iter().map(|x| (*x).to_owned()).collect();
    v.push((*n).to_owned());
    v
}

/// Candidate spellings for custom type references in a project
fn reference_names(defined: &[Name]) -> Vec<Name> {
    let mut v: Vec<Name> = Vec::new();
    for n in U_NAMES {
        v.push(vec![(*n).to_owned()]);
    }
    for d in defined {
        v.push(d.clone());
        if d.len() >= 2 {
            v.push(d[d.len() - 2..].to_vec()); // partial qualification
        }
    }
    for b in BUILTIN_NAMES {
        v.push(vec![(*b).to_owned()]);
    }
    for b in BUILTIN_QNAMES {
        v.push(split(b));
    }
    v.push(vec!["Nope".to_owned()]);
    v.push(split("other.p.Foo"));
    v.push(split("os.IBinder"));
    // near misses of the built-ins' qualified names
    for n in ["android.IBinder", "android.ParcelFileDescriptor", "java.FileDescriptor", "a.ParcelableHolder", "java.io.FileDescriptor",
        "android.os.x.IBinder", "os.ParcelFileDescriptor", "ndroid.os.ParcelFileDescriptor", "android.os.Parcelfiledescriptor"] {
        v.push(split(n));
    }
    v
}

#[derive(Clone, Debug)]
pub struct ProjectCfg {
    pub max_files: usize,
    pub many_imports: bool,
    pub gen: GenCfg,
}

impl Default for ProjectCfg {
    fn default() -> Self {
        ProjectCfg {
            max_files: 6,
            many_imports: false,
            gen: GenCfg {
                max_members: 4,
                max_args: 3,
                max_depth: 4,
                allow_void_anywhere: true,
                allow_overflow_code: false,
                type_names: None,
                annos: false,
                method_names: None,
                values: false,
            },
        }
    }
}

pub fn project(s: &mut Src, pc: &ProjectCfg) -> ProjectM {
    let nfiles = s.range(1, pc.max_files);
    // decide keys and kinds first so that files can refer to one another
    let mut keys: Vec<(Name, usize)> = Vec::new();
    for _ in 0..nfiles {
        let k = universe_key(s);
        let kind = s.weighted(&[4, 4, 3]);
        keys.push((k, kind));
    }
    let defined: Vec<Name> = keys.iter().map(|k| k.0.clone()).collect();
    let mut cfg = pc.gen.clone();
    let mut files = Vec::new();
    for (key, kind) in &keys {
        let package: Name = key[..key.len() - 1].to_vec();
        let name = key[key.len() - 1].clone();
        // imports
        let max_imp = if pc.many_imports { 6 } else { 4 };
        let ni = s.count(max_imp);
        let mut imports: Vec<Name> = Vec::new();
        for _ in 0..ni {
            let im = match s.weighted(&[8, 3, 2, 2]) {
                0 => s.pick(&defined).clone(),
                1 => universe_key(s),
                2 => {
                    if s.chance(1, 4) {
                        split(*s.pick(&["android.IBinder", "java.FileDescriptor", "java.io.FileDescriptor", "a.ParcelableHolder", "android.ParcelFileDescriptor"]))
                    } else {
                        split(*s.pick(BUILTIN_QNAMES))
                    }
                }
                _ => {
                    if imports.is_empty() {
                        s.pick(&defined).clone()
                    } else {
                        s.pick(&imports).clone() // duplicate
                    }
                }
            };
            imports.push(im);
        }
        let nd = s.weighted(&[6, 3, 2, 1]);
        let mut decls = Vec::new();
        for _ in 0..nd {
            let nm = match s.weighted(&[6, 2, 1]) {
                0 => vec![(*s.pick(U_NAMES)).to_owned()],
                1 => universe_key(s),
                _ => {
                    if let Some(d) = decls.last() {
                        let d: &DeclM = d;
                        d.name.clone()
                    } else {
                        vec![(*s.pick(U_NAMES)).to_owned()]
                    }
                }
            };
            decls.push(DeclM {
                annos: vec![],
                name: nm,
            });
        }
        // references: the general candidates plus (twice) the spellings that hit this
        // file's own imports and forward declarations
        let mut names = reference_names(&defined);
        for _ in 0..2 {
            for im in &imports {
                names.push(vec![im[im.len() - 1].clone()]);
                names.push(im.clone());
                if im.len() > 2 {
                    names.push(im[im.len() - 2..].to_vec());
                }
            }
            for d in &decls {
                names.push(d.name.clone());
                names.push(vec![d.name[d.name.len() - 1].clone()]);
            }
        }
        cfg.type_names = Some(names);
        let it = item(s, &cfg, name, *kind);
        files.push(FileM {
            package,
            imports,
            decls,
            item: it,
        });
    }
    ProjectM { files }
}
