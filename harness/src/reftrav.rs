//! Reference traversal of a tree: the expected visiting order of symbols, written
//! independently of the library's traverse module.

use aidl_parser::ast;
use aidl_parser::symbol::{ConstOwner, Symbol};

/// identity of a symbol: variant tag + address of the node it wraps
pub fn sym_id(s: &Symbol) -> (u8, usize) {
    match s {
        Symbol::Package(p) => (0, *p as *const _ as usize),
        Symbol::Import(p) => (1, *p as *const _ as usize),
        Symbol::Interface(p, _) => (2, *p as *const _ as usize),
        Symbol::Parcelable(p, _) => (3, *p as *const _ as usize),
        Symbol::Enum(p, _) => (4, *p as *const _ as usize),
        Symbol::Method(p, _) => (5, *p as *const _ as usize),
        Symbol::Arg(p, _) => (6, *p as *const _ as usize),
        Symbol::Const(p, _) => (7, *p as *const _ as usize),
        Symbol::Field(p, _) => (8, *p as *const _ as usize),
        Symbol::EnumElement(p, _) => (9, *p as *const _ as usize),
        Symbol::Type(p) => (10, *p as *const _ as usize),
    }
}

pub const KIND_NAMES: [&str; 11] = [
    "Package",
    "Import",
    "Interface",
    "Parcelable",
    "Enum",
    "Method",
    "Arg",
    "Const",
    "Field",
    "EnumElement",
    "Type",
];

fn type_subtree<'a>(t: &'a ast::Type, out: &mut Vec<Symbol<'a>>) {
    if t.kind == ast::TypeKind::Array {
        for g in &t.generic_types {
            type_subtree(g, out);
        }
        out.push(Symbol::Type(t));
    } else {
        out.push(Symbol::Type(t));
        for g in &t.generic_types {
            type_subtree(g, out);
        }
    }
}

#[derive(Clone, Copy, Debug, PartialEq, Eq)]
pub enum Level {
    ItemsOnly,
    ItemsAndItemElements,
    All,
}

pub fn expected_symbols<'a>(a: &'a ast::Aidl, level: Level) -> Vec<Symbol<'a>> {
    let mut out = Vec::new();
    let all = level == Level::All;
    if all {
        out.push(Symbol::Package(&a.package));
        for im in &a.imports {
            out.push(Symbol::Import(im));
        }
    }
    match &a.item {
        ast::Item::Interface(i) => {
            out.push(Symbol::Interface(i, &a.package));
            if level == Level::ItemsOnly {
                return out;
            }
            for el in &i.elements {
                match el {
                    ast::InterfaceElement::Method(m) => {
                        out.push(Symbol::Method(m, i));
                        if all {
                            type_subtree(&m.return_type, &mut out);
                            for arg in &m.args {
                                out.push(Symbol::Arg(arg, m));
                                type_subtree(&arg.arg_type, &mut out);
                            }
                        }
                    }
                    ast::InterfaceElement::Const(c) => {
                        out.push(Symbol::Const(c, ConstOwner::Interface(i)));
                        if all {
                            type_subtree(&c.const_type, &mut out);
                        }
                    }
                }
            }
        }
        ast::Item::Parcelable(p) => {
            out.push(Symbol::Parcelable(p, &a.package));
            if level == Level::ItemsOnly {
                return out;
            }
            for el in &p.elements {
                match el {
                    ast::ParcelableElement::Field(f) => {
                        out.push(Symbol::Field(f, p));
                        if all {
                            type_subtree(&f.field_type, &mut out);
                        }
                    }
                    ast::ParcelableElement::Const(c) => {
                        out.push(Symbol::Const(c, ConstOwner::Parcelable(p)));
                        if all {
                            type_subtree(&c.const_type, &mut out);
                        }
                    }
                }
            }
        }
        ast::Item::Enum(e) => {
            out.push(Symbol::Enum(e, &a.package));
            if level == Level::ItemsOnly {
                return out;
            }
            for el in &e.elements {
                out.push(Symbol::EnumElement(el, e));
            }
        }
    }
    out
}

/// all type nodes (any depth) in source order of their first token; arrays after their element
pub fn expected_types(a: &ast::Aidl) -> Vec<&ast::Type> {
    expected_symbols(a, Level::All)
        .into_iter()
        .filter_map(|s| match s {
            Symbol::Type(t) => Some(t),
            _ => None,
        })
        .collect()
}

pub fn expected_methods(a: &ast::Aidl) -> Vec<&ast::Method> {
    match &a.item {
        ast::Item::Interface(i) => i.elements.iter().filter_map(|e| e.as_method()).collect(),
        _ => vec![],
    }
}
