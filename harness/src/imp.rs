//! Calls into the library under test, with panics caught.

use aidl_parser::diagnostic::Diagnostic;
use aidl_parser::{ParseFileResult, Parser};
use std::cell::RefCell;
use std::collections::HashMap;
use std::panic::{catch_unwind, AssertUnwindSafe};
use std::sync::Once;

thread_local! {
    static LAST_PANIC: RefCell<Option<String>> = const { RefCell::new(None) };
    static IN_IMPL: RefCell<bool> = const { RefCell::new(false) };
}

static HOOK: Once = Once::new();

pub fn install_panic_hook() {
    HOOK.call_once(|| {
        let default = std::panic::take_hook();
        std::panic::set_hook(Box::new(move |info| {
            let in_impl = IN_IMPL.with(|f| *f.borrow());
            if in_impl {
                let msg = if let Some(s) = info.payload().downcast_ref::<&str>() {
                    (*s).to_owned()
                } else if let Some(s) = info.payload().downcast_ref::<String>() {
                    s.clone()
                } else {
                    "<non-string panic>".to_owned()
                };
                let loc = info
                    .location()
                    .map(|l| format!("{}:{}", l.file(), l.line()))
                    .unwrap_or_default();
                let mut short: String = msg.chars().take(240).collect();
                if short.len() < msg.len() {
                    short.push_str("...");
                }
                LAST_PANIC.with(|p| *p.borrow_mut() = Some(format!("{short} at {loc}")));
            } else {
                default(info);
            }
        }));
    });
}

/// Run library code; a panic becomes Err(message)
pub fn guarded<T>(f: impl FnOnce() -> T) -> Result<T, String> {
    install_panic_hook();
    IN_IMPL.with(|x| *x.borrow_mut() = true);
    let r = catch_unwind(AssertUnwindSafe(f));
    IN_IMPL.with(|x| *x.borrow_mut() = false);
    r.map_err(|_| {
        LAST_PANIC
            .with(|p| p.borrow_mut().take())
            .unwrap_or_else(|| "panic".to_owned())
    })
}

pub type Results = HashMap<String, ParseFileResult<String>>;

pub struct Outcome {
    /// parse-stage results (hook accessor), cloned
    pub parse: Results,
    /// validate() results
    pub valid: Results,
}

/// add every (id, content) in order to a fresh parser, then validate
pub fn run_project(files: &[(String, String)]) -> Result<Outcome, String> {
    guarded(|| {
        let mut p: Parser<String> = Parser::new();
        for (id, c) in files {
            p.add_content(id.clone(), c);
        }
        let parse = p.verif_parse_results().clone();
        let valid = p.validate();
        Outcome { parse, valid }
    })
    .map_err(|e| format!("panic in add_content/validate: {e}"))
}

/// Like run_project, but the final contents are reached through a short edit history chosen
/// deterministically from the texts: decoy contents that are replaced, intermediate validate()
/// calls, a temporary extra file that is removed again. By C12 the result must be the same as
/// for the plain run, so the callers' expectations are unchanged; this lets the single-shot
/// checks notice state that survives replacement / removal.
pub fn run_project_with_history(files: &[(String, String)]) -> Result<Outcome, String> {
    let mut key = Vec::new();
    for (id, t) in files {
        key.extend_from_slice(id.as_bytes());
        key.extend_from_slice(t.as_bytes());
    }
    let h = crate::src::fnv1a(&key);
    let mode = h % 4;
    if mode == 0 || files.is_empty() {
        return run_project(files);
    }
    guarded(|| {
        let mut p: Parser<String> = Parser::new();
        const DECOYS: [&str; 4] = ["", "package zz; parcelable Decoy { int x; }", "package a; interface {", "package p; interface Foo { void f(); }"];
        match mode {
            1 => {
                // every id first holds a decoy (or another file's content), then its final content
                for (i, (id, _)) in files.iter().enumerate() {
                    let d = if (h >> (8 + i)) & 1 == 0 {
                        DECOYS[((h >> 16) as usize + i) % DECOYS.len()].to_owned()
                    } else {
                        files[(i + 1) % files.len()].1.clone()
                    };
                    p.add_content(id.clone(), &d);
                }
                let _ = p.validate();
                for (id, c) in files {
                    p.add_content(id.clone(), c);
                }
            }
            2 => {
                // reverse order, validate after every addition
                for (id, c) in files.iter().rev() {
                    p.add_content(id.clone(), c);
                    let _ = p.validate();
                }
            }
            _ => {
                // a temporary extra file (a copy of one of the files, i.e. a duplicate key) comes and goes
                for (id, c) in files {
                    p.add_content(id.clone(), c);
                }
                let extra = files[(h >> 20) as usize % files.len()].1.clone();
                p.add_content("__tmp".to_owned(), &extra);
                let _ = p.validate();
                p.remove_content("__tmp".to_owned());
                p.remove_content("__never".to_owned());
            }
        }
        let parse = p.verif_parse_results().clone();
        let valid = p.validate();
        Outcome { parse, valid }
    })
    .map_err(|e| format!("panic in add_content/remove_content/validate: {e}"))
}

/// Final contents `files`, reached after an id "__ghost" first held `ghost_first` (a well-formed
/// file defining a key), everything was validated, and the ghost was then replaced by text
/// that has no tree. The ghost stays in the parser (tree-less), so it must not define anything.
pub fn run_project_with_ghost(files: &[(String, String)], ghost_first: &str, ghost_final: &str) -> Result<Outcome, String> {
    guarded(|| {
        let mut p: Parser<String> = Parser::new();
        p.add_content("__ghost".to_owned(), ghost_first);
        for (id, c) in files {
            p.add_content(id.clone(), c);
        }
        let _ = p.validate();
        p.add_content("__ghost".to_owned(), ghost_final);
        let parse = p.verif_parse_results().clone();
        let valid = p.validate();
        Outcome { parse, valid }
    })
    .map_err(|e| format!("panic in add_content/validate: {e}"))
}

pub fn run_one(text: &str) -> Result<(ParseFileResult<String>, ParseFileResult<String>), String> {
    let o = run_project(&[("f".to_owned(), text.to_owned())])?;
    let mut o = o;
    let p = o.parse.remove("f").ok_or("no parse-stage result for the id")?;
    let v = o.valid.remove("f").ok_or("validate() returned no result for the id")?;
    Ok((p, v))
}

/// multiset difference: diagnostics of `all` that are not accounted for by `sub`
pub fn minus<'a>(all: &'a [Diagnostic], sub: &[Diagnostic]) -> Vec<&'a Diagnostic> {
    let mut used = vec![false; sub.len()];
    let mut out = Vec::new();
    for d in all {
        let mut found = false;
        for (i, s) in sub.iter().enumerate() {
            if !used[i] && s == d {
                used[i] = true;
                found = true;
                break;
            }
        }
        if !found {
            out.push(d);
        }
    }
    out
}

/// is `sub` a sub-multiset of `all`?
pub fn is_submultiset(sub: &[Diagnostic], all: &[Diagnostic]) -> bool {
    let mut used = vec![false; all.len()];
    for s in sub {
        let mut found = false;
        for (i, d) in all.iter().enumerate() {
            if !used[i] && s == d {
                used[i] = true;
                found = true;
                break;
            }
        }
        if !found {
            return false;
        }
    }
    true
}
