//! Token kinds of the AIDL grammar (the `match` block of src/aidl.lalrpop) and
//! their vocabulary.

use serde::{Deserialize, Serialize};

#[derive(Clone, Copy, PartialEq, Eq, Hash, Debug, Serialize, Deserialize, PartialOrd, Ord)]
pub enum K {
    Package,
    Import,
    Interface,
    Parcelable,
    Enum,
    Oneway,
    Const,
    Direction,
    Void,
    Primitive,
    StringT,
    CharSequence,
    List,
    Map,
    QuotedString,
    Boolean,
    Annotation,
    Semi,
    Comma,
    LBrace,
    RBrace,
    LParen,
    RParen,
    LBracket,
    RBracket,
    Lt,
    Gt,
    Eq,
    Dot,
    Minus,
    Reserved,
    Ident,
    Integer,
    Float,
}

pub const ALL_KINDS: [K; 34] = [
    K::Package,
    K::Import,
    K::Interface,
    K::Parcelable,
    K::Enum,
    K::Oneway,
    K::Const,
    K::Direction,
    K::Void,
    K::Primitive,
    K::StringT,
    K::CharSequence,
    K::List,
    K::Map,
    K::QuotedString,
    K::Boolean,
    K::Annotation,
    K::Semi,
    K::Comma,
    K::LBrace,
    K::RBrace,
    K::LParen,
    K::RParen,
    K::LBracket,
    K::RBracket,
    K::Lt,
    K::Gt,
    K::Eq,
    K::Dot,
    K::Minus,
    K::Reserved,
    K::Ident,
    K::Integer,
    K::Float,
];

impl K {
    /// Name used by the generated parser in its expectation sets
    pub fn lalrpop_name(self) -> &'static str {
        match self {
            K::Package => "PACKAGE",
            K::Import => "IMPORT",
            K::Interface => "INTERFACE",
            K::Parcelable => "PARCELABLE",
            K::Enum => "ENUM",
            K::Oneway => "ONEWAY",
            K::Const => "CONST",
            K::Direction => "DIRECTION",
            K::Void => "VOID",
            K::Primitive => "PRIMITIVE",
            K::StringT => "STRING",
            K::CharSequence => "CHAR_SEQUENCE",
            K::List => "LIST",
            K::Map => "MAP",
            K::QuotedString => "QUOTED_STRING",
            K::Boolean => "BOOLEAN",
            K::Annotation => "ANNOTATION",
            K::Semi => "\";\"",
            K::Comma => "\",\"",
            K::LBrace => "\"{\"",
            K::RBrace => "\"}\"",
            K::LParen => "\"(\"",
            K::RParen => "\")\"",
            K::LBracket => "\"[\"",
            K::RBracket => "\"]\"",
            K::Lt => "\"<\"",
            K::Gt => "\">\"",
            K::Eq => "\"=\"",
            K::Dot => "\".\"",
            K::Minus => "\"-\"",
            K::Reserved => "RESERVED_KEYWORD",
            K::Ident => "IDENT",
            K::Integer => "INTEGER",
            K::Float => "FLOAT",
        }
    }

    /// One representative text per kind
    pub fn repr(self) -> &'static str {
        match self {
            K::Package => "package",
            K::Import => "import",
            K::Interface => "interface",
            K::Parcelable => "parcelable",
            K::Enum => "enum",
            K::Oneway => "oneway",
            K::Const => "const",
            K::Direction => "inout",
            K::Void => "void",
            K::Primitive => "int",
            K::StringT => "String",
            K::CharSequence => "CharSequence",
            K::List => "List",
            K::Map => "Map",
            K::QuotedString => "\"s\"",
            K::Boolean => "true",
            K::Annotation => "@A",
            K::Semi => ";",
            K::Comma => ",",
            K::LBrace => "{",
            K::RBrace => "}",
            K::LParen => "(",
            K::RParen => ")",
            K::LBracket => "[",
            K::RBracket => "]",
            K::Lt => "<",
            K::Gt => ">",
            K::Eq => "=",
            K::Dot => ".",
            K::Minus => "-",
            K::Reserved => "for",
            K::Ident => "x",
            K::Integer => "1",
            K::Float => "1.5f",
        }
    }
}

/// Literal keywords of the first lexer block (exact word => that kind)
pub const KEYWORDS: &[(&str, K)] = &[
    ("package", K::Package),
    ("import", K::Import),
    ("interface", K::Interface),
    ("parcelable", K::Parcelable),
    ("enum", K::Enum),
    ("oneway", K::Oneway),
    ("const", K::Const),
    ("inout", K::Direction),
    ("in", K::Direction),
    ("out", K::Direction),
    ("void", K::Void),
    ("byte", K::Primitive),
    ("short", K::Primitive),
    ("int", K::Primitive),
    ("long", K::Primitive),
    ("float", K::Primitive),
    ("double", K::Primitive),
    ("boolean", K::Primitive),
    ("char", K::Primitive),
    ("String", K::StringT),
    ("CharSequence", K::CharSequence),
    ("List", K::List),
    ("Map", K::Map),
    ("true", K::Boolean),
    ("false", K::Boolean),
];

pub const PRIMITIVES: &[&str] = &[
    "byte", "short", "int", "long", "float", "double", "boolean", "char",
];

/// Reserved Java / C++ words (second lexer block)
pub const RESERVED: &[&str] = &[
    "break",
    "case",
    "catch",
    "char",
    "class",
    "continue",
    "default",
    "do",
    "double",
    "else",
    "enum",
    "false",
    "float",
    "for",
    "goto",
    "if",
    "int",
    "long",
    "new",
    "private",
    "protected",
    "public",
    "return",
    "short",
    "static",
    "switch",
    "this",
    "throw",
    "true",
    "try",
    "void",
    "volatile",
    "while",
];

/// Is `w` a word that may never be stored as a user-chosen identifier?
pub fn is_keyword_or_reserved(w: &str) -> bool {
    KEYWORDS.iter().any(|(k, _)| *k == w) || RESERVED.contains(&w)
}

pub fn classify_word(w: &str) -> K {
    if let Some((_, k)) = KEYWORDS.iter().find(|(k, _)| *k == w) {
        return *k;
    }
    if RESERVED.contains(&w) {
        return K::Reserved;
    }
    K::Ident
}

#[derive(Clone, Debug, PartialEq, Eq, Serialize, Deserialize)]
pub struct Tok {
    pub k: K,
    pub text: String,
}

impl Tok {
    pub fn new(k: K, text: &str) -> Tok {
        Tok {
            k,
            text: text.to_owned(),
        }
    }
}
