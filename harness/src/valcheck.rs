//! Shared machinery of C05..C10: run a generated project, compute the reference
//! validation of every file, and compare one property's projection.

use crate::astvisit;
use crate::cmp;
use crate::core::Stats;
use crate::imp;
use crate::projcase::ProjCase;
use crate::refval::{Class, RefOut, Route};
use aidl_parser::ast;
use aidl_parser::diagnostic::Diagnostic;
use std::collections::HashSet;

#[derive(Clone, Copy, Debug, PartialEq, Eq)]
pub enum Which {
    C05,
    C06,
    C07,
    C08,
    C09,
    C10,
}

fn key(r: &ast::Range) -> (usize, usize) {
    (r.start.offset, r.end.offset)
}

fn mentions_unknown_type(d: &Diagnostic) -> bool {
    d.message.to_lowercase().contains("unknown type")
        || d.context_message.as_deref().unwrap_or("").to_lowercase().contains("unknown type")
}

pub struct FileResult {
    pub compared: usize,
    pub dont_care: Option<String>,
}

/// Compare file `i` of the project for property `which`. `out` = implementation output.
pub fn check_file(case: &ProjCase, out: &imp::Outcome, i: usize, which: Which, st: &mut Stats) -> Result<FileResult, String> {
    let id = &case.ids[i];
    let p = out.parse.get(id).ok_or("no parse-stage result")?;
    let v = out.valid.get(id).ok_or("no validated result")?;
    let damaged = case.damaged[i].is_some();
    if damaged && p.ast.is_none() {
        return Err(format!("file {id}: a file whose only defect is one malformed member (ending at its terminator) has no tree"));
    }
    // an overflowing transact code is reported at the parse stage and the method is kept
    let n_overflow = match &case.docs[i].expected.item {
        ast::Item::Interface(it) => it.elements.iter().filter(|e| matches!(e, ast::InterfaceElement::Method(m) if crate::refval::has_unparsable_code(m))).count(),
        _ => 0,
    };
    if !damaged && p.diagnostics.len() != n_overflow {
        return Err(format!("file {id}: well-formed generated document got a syntax-stage diagnostic: {}", cmp::describe(&p.diagnostics[0])));
    }
    let actual = v.ast.as_ref().ok_or_else(|| format!("file {id}: no tree for a {} document", if damaged { "recoverable" } else { "well-formed" }))?;
    // reference input: the tree built from the model; for a file with an injected malformed
    // member the library's own parse-stage tree (differential on the validation stage only)
    let src_tree: &ast::Aidl = if damaged { p.ast.as_ref().unwrap() } else { &case.docs[i].expected };
    if damaged {
        st.class("damaged-file-compared-differentially");
    }
    let r: RefOut = match crate::refval::validate_ref(src_tree, &case.keys) {
        Ok(r) if which == Which::C09 && crate::refval::tree_has_unparsable_code(src_tree) => {
            // two readings of "carries an explicit code" for an overflowing code: accept the one
            // the implementation follows, as long as it follows one of them completely
            let alt = crate::refval::validate_ref_opt(src_tree, &case.keys, true).map_err(|e| e.to_string())?;
            st.class("unparsable-code:two-readings");
            let vd0: Vec<&Diagnostic> = imp::minus(&v.diagnostics, &p.diagnostics);
            let mut dom9: HashSet<(usize, usize)> = HashSet::new();
            if let ast::Item::Interface(itf) = &actual.item {
                for el in &itf.elements {
                    if let ast::InterfaceElement::Method(m) = el {
                        dom9.insert(key(&m.symbol_range));
                        dom9.insert(key(&m.transact_code_range));
                    }
                }
            }
            let in9 = |rg: &ast::Range| dom9.contains(&key(rg));
            let first = cmp::compare_diags(&r.diags, &vd0, actual, &in9);
            if first.is_ok() {
                r
            } else if cmp::compare_diags(&alt.diags, &vd0, actual, &in9).is_ok() {
                alt
            } else {
                return Err(format!("file {id}: method-name / code diagnostics match neither reading of an overflowing transact code: {}", first.unwrap_err()));
            }
        }
        Ok(r) => r,
        Err(why) => {
            st.discard(&why);
            return Ok(FileResult {
                compared: 0,
                dont_care: Some(why),
            });
        }
    };
    if !damaged {
        // the tree must have the expected shape, otherwise paths / substitutions are meaningless
        cmp::compare_structure(
            &r.tree,
            actual,
            astvisit::Mask {
                ranges: true,
                docs: true,
                kinds: true,
                method_oneway: true,
            },
        )
        .map_err(|e| format!("file {id}: tree does not mirror the source: {e}"))?;
    }
    let vd: Vec<&Diagnostic> = imp::minus(&v.diagnostics, &p.diagnostics);
    let mut compared = 0;
    let pre = |e: String| format!("file {id}: {e}");
    match which {
        Which::C05 => {
            compared += cmp::compare_kinds(&r.tree, actual).map_err(pre)?;
            let exp: Vec<_> = r.diags.iter().filter(|d| d.class == Class::UnknownType).cloned().collect();
            let act: Vec<&Diagnostic> = vd.iter().copied().filter(|d| mentions_unknown_type(d)).collect();
            compared += cmp::compare_diags(&exp, &act, actual, &|_| true).map_err(pre)?;
            for (_, route, depth) in &r.routes {
                if *route != Route::NotCustom {
                    st.class(&format!("route:{route:?}"));
                    st.class(&format!("custom-depth:{depth}"));
                }
            }
        }
        Which::C06 => {
            let mut dom: HashSet<(usize, usize)> = HashSet::new();
            for im in actual.imports.iter().chain(actual.declared_parcelables.iter()) {
                dom.insert(key(&im.symbol_range));
                dom.insert(key(&im.full_range));
            }
            compared += cmp::compare_diags(&r.diags, &vd, actual, &|rg| dom.contains(&key(rg))).map_err(pre)?;
            for d in &r.diags {
                if matches!(
                    d.class,
                    Class::ImportDup | Class::ImportUnresolved | Class::ImportUnused | Class::DeclConflict | Class::DeclDup | Class::DeclUnused | Class::DeclUsage
                ) {
                    st.class(&format!("outcome:{:?}", d.class));
                }
            }
            let n_stmts = actual.imports.len() + actual.declared_parcelables.len();
            st.class_n("statements", n_stmts as u64);
        }
        Which::C07 => {
            let mut dom: HashSet<(usize, usize)> = HashSet::new();
            if let ast::Item::Interface(itf) = &actual.item {
                for el in &itf.elements {
                    if let ast::InterfaceElement::Method(m) = el {
                        for a in &m.args {
                            match &a.direction {
                                ast::Direction::In(rg) | ast::Direction::Out(rg) | ast::Direction::InOut(rg) => {
                                    dom.insert(key(rg));
                                }
                                ast::Direction::Unspecified => {
                                    let s = a.arg_type.full_range.start.offset;
                                    dom.insert((s, s));
                                }
                            }
                        }
                    }
                }
            }
            // only the argument-direction classes can legitimately sit there
            compared += cmp::compare_diags(&r.diags, &vd, actual, &|rg| dom.contains(&key(rg))).map_err(pre)?;
            compared += dom.len();
            for d in &r.diags {
                if matches!(d.class, Class::ArgDirection | Class::ArgOneway) {
                    st.class(&format!("expected:{:?}", d.class));
                }
            }
        }
        Which::C08 => {
            let mut dom: HashSet<(usize, usize)> = HashSet::new();
            for (_, t) in astvisit::all_types(actual) {
                match t.kind {
                    ast::TypeKind::Array | ast::TypeKind::List | ast::TypeKind::Map => {
                        if t.generic_types.is_empty() {
                            dom.insert(key(&t.symbol_range));
                        }
                        for g in &t.generic_types {
                            dom.insert(key(&g.symbol_range));
                        }
                    }
                    _ => {}
                }
            }
            let exp: Vec<_> = r.diags.iter().filter(|d| d.class != Class::UnknownType).cloned().collect();
            let act: Vec<&Diagnostic> = vd.iter().copied().filter(|d| !mentions_unknown_type(d)).collect();
            compared += cmp::compare_diags(&exp, &act, actual, &|rg| dom.contains(&key(rg))).map_err(pre)?;
            compared += dom.len();
            for d in &r.diags {
                if matches!(d.class, Class::ArrayElem | Class::MultiDim | Class::ListElem | Class::MapKey | Class::MapValue | Class::RawList | Class::RawMap) {
                    st.class(&format!("expected:{:?}", d.class));
                }
            }
        }
        Which::C09 => {
            let mut dom: HashSet<(usize, usize)> = HashSet::new();
            if let ast::Item::Interface(itf) = &actual.item {
                for el in &itf.elements {
                    if let ast::InterfaceElement::Method(m) = el {
                        dom.insert(key(&m.symbol_range));
                        dom.insert(key(&m.transact_code_range));
                    }
                }
            }
            compared += cmp::compare_diags(&r.diags, &vd, actual, &|rg| dom.contains(&key(rg))).map_err(pre)?;
            for d in &r.diags {
                if matches!(d.class, Class::MethodDupName | Class::MethodDupCode | Class::MethodMixed) {
                    st.class(&format!("expected:{:?}", d.class));
                }
            }
        }
        Which::C10 => {
            // oneway flags after propagation
            let mut dom: HashSet<(usize, usize)> = HashSet::new();
            if let (ast::Item::Interface(ei), ast::Item::Interface(ai)) = (&r.tree.item, &actual.item) {
                if ei.oneway != ai.oneway {
                    return Err(pre(format!("interface oneway flag: expected {} actual {}", ei.oneway, ai.oneway)));
                }
                for (k, (ee, ae)) in ei.elements.iter().zip(ai.elements.iter()).enumerate() {
                    if let (ast::InterfaceElement::Method(em), ast::InterfaceElement::Method(am)) = (ee, ae) {
                        if em.oneway != am.oneway {
                            return Err(pre(format!(
                                "item.elements[{k}] (`{}`): oneway after validation expected {} actual {}",
                                em.name, em.oneway, am.oneway
                            )));
                        }
                        compared += 1;
                        // keyword present in the source <=> parse-stage oneway flag
                        let spelled = match &src_tree.item {
                            ast::Item::Interface(si) => matches!(si.elements.get(k), Some(ast::InterfaceElement::Method(sm)) if sm.oneway),
                            _ => false,
                        };
                        if spelled {
                            dom.insert(key(&am.oneway_range));
                        }
                        dom.insert(key(&am.return_type.symbol_range));
                    }
                }
            }
            let exp: Vec<_> = r.diags.iter().filter(|d| d.class != Class::UnknownType).cloned().collect();
            let act: Vec<&Diagnostic> = vd.iter().copied().filter(|d| !mentions_unknown_type(d)).collect();
            compared += cmp::compare_diags(&exp, &act, actual, &|rg| dom.contains(&key(rg))).map_err(pre)?;
            for d in &r.diags {
                if matches!(d.class, Class::OnewayRedundant | Class::OnewayReturn) {
                    st.class(&format!("expected:{:?}", d.class));
                }
            }
        }
    }
    Ok(FileResult {
        compared,
        dont_care: None,
    })
}
