//! A generated multi-file project: models, rendered documents, reference keys.

use crate::core::Fail;
use crate::doccase::DocCase;
use crate::gen::{self, LayoutCfg, ProjectCfg};
use crate::imp;
use crate::model::ProjectM;
use crate::refval::{self, Keys, RefOut};
use crate::src::Src;
use serde_json::{json, Value};

pub struct ProjCase {
    pub project: ProjectM,
    pub docs: Vec<DocCase>,
    pub ids: Vec<String>,
    pub keys: Keys,
}

impl ProjCase {
    pub fn from_project(project: ProjectM, s: &mut Src, lc: &LayoutCfg) -> Result<ProjCase, Fail> {
        let mut docs = Vec::new();
        for f in &project.files {
            docs.push(DocCase::from_model(f.clone(), s, lc)?);
        }
        let ids = (0..docs.len()).map(|i| format!("f{i}")).collect();
        let keys = refval::keys_of(docs.iter().map(|d| &d.expected));
        Ok(ProjCase {
            project,
            docs,
            ids,
            keys,
        })
    }

    pub fn files(&self) -> Vec<(String, String)> {
        self.ids.iter().cloned().zip(self.docs.iter().map(|d| d.laid.text.clone())).collect()
    }

    pub fn run(&self) -> Result<imp::Outcome, String> {
        imp::run_project(&self.files())
    }

    /// reference validation of file i (Err = don't-care corner)
    pub fn reference(&self, i: usize) -> Result<RefOut, String> {
        refval::validate_ref(&self.docs[i].expected, &self.keys)
    }

    pub fn json(&self) -> Value {
        json!({"files": self.files().iter().map(|f| json!({"id": f.0, "text": f.1})).collect::<Vec<_>>()})
    }
}

pub fn gen_proj(s: &mut Src, pc: &ProjectCfg, lc: &LayoutCfg) -> Result<ProjCase, Fail> {
    let p = gen::project(s, pc);
    ProjCase::from_project(p, s, lc)
}

/// simple layout configuration for checks that are not about layout
pub fn calm_layout() -> LayoutCfg {
    LayoutCfg {
        unicode_ws: false,
        comments: true,
        doc_comments: false,
        lone_cr: false,
        multibyte: true,
        no_sep: false,
    }
}
