//! A generated multi-file project: models, rendered documents, reference keys.

use crate::core::Fail;
use crate::doccase::DocCase;
use crate::gen::{self, LayoutCfg, ProjectCfg};
use crate::imp;
use crate::model::ProjectM;
use crate::refval::{self, Keys, RefOut};
use crate::src::Src;
use serde_json::{json, Value};

pub struct ProjCase {
    pub project: ProjectM,
    pub docs: Vec<DocCase>,
    pub ids: Vec<String>,
    pub keys: Keys,
    /// text actually given to the parser for file i when it differs from docs[i]: the
    /// document with one malformed member injected at the end of its body. Such a file still
    /// has a tree (C14) and stays registered under its key; only its own result is not compared.
    pub damaged: Vec<Option<String>>,
}

impl ProjCase {
    pub fn from_project(project: ProjectM, s: &mut Src, lc: &LayoutCfg) -> Result<ProjCase, Fail> {
        let mut docs = Vec::new();
        for f in &project.files {
            docs.push(DocCase::from_model(f.clone(), s, lc)?);
        }
        let ids = (0..docs.len()).map(|i| format!("f{i}")).collect();
        let keys = refval::keys_of(docs.iter().map(|d| &d.expected));
        let damaged = vec![None; docs.len()];
        Ok(ProjCase {
            project,
            docs,
            ids,
            keys,
            damaged,
        })
    }

    /// Inject a malformed member (ending at its normal terminator) before the closing brace
    /// of file i's item.
    pub fn damage(&mut self, i: usize) {
        let d = &self.docs[i];
        let h = crate::src::fnv1a(d.laid.text.as_bytes());
        // position: before the closing brace, or (interfaces / parcelables) in front of a member
        let n = d.rendered.members.len();
        let is_enum = matches!(d.model.item, crate::model::ItemM::Enum(_));
        let at_tok = if !is_enum && n > 0 && h % 3 != 0 {
            d.rendered.members[(h >> 8) as usize % n].first_tok
        } else {
            d.rendered.body_close
        };
        let at = d.laid.spans[at_tok].0;
        let garbage = match &d.model.item {
            crate::model::ItemM::Interface(_) => [" void zz ( ) = 99999999999 ; ", " void zz ( ] ; ", " int zz ; "][(h >> 16) as usize % 3],
            crate::model::ItemM::Parcelable(_) => [" int ; ", " void zz ( ) ; ", " = 3 ; "][(h >> 16) as usize % 3],
            crate::model::ItemM::Enum(e) => {
                if e.elements.is_empty() || e.trailing_comma {
                    " 1 , "
                } else {
                    " , 1 , "
                }
            }
        };
        let mut t = d.laid.text.clone();
        t.insert_str(at, garbage);
        self.damaged[i] = Some(t);
    }

    pub fn files(&self) -> Vec<(String, String)> {
        self.ids
            .iter()
            .cloned()
            .zip(self.docs.iter().zip(self.damaged.iter()).map(|(d, g)| g.clone().unwrap_or_else(|| d.laid.text.clone())))
            .collect()
    }

    pub fn run(&self) -> Result<imp::Outcome, String> {
        let files = self.files();
        // a key that some file imports but no file defines: let a "ghost" file define it for a
        // while and then lose its tree; the final contents are unchanged, so are the expectations
        let mut undefined: Vec<&Vec<String>> = Vec::new();
        for f in &self.project.files {
            for im in &f.imports {
                let k = im.join(".");
                if !self.keys.contains_key(&k) && !k.starts_with("android.") && !k.starts_with("java.") {
                    undefined.push(im);
                }
            }
        }
        let mut key = Vec::new();
        for (_, t) in &files {
            key.extend_from_slice(t.as_bytes());
        }
        let h = crate::src::fnv1a(&key);
        if !undefined.is_empty() && h % 3 == 0 {
            let im = undefined[(h >> 8) as usize % undefined.len()];
            let kind = ["parcelable", "interface", "enum"][(h >> 16) as usize % 3];
            let body = if kind == "enum" { "A" } else { "" };
            let first = format!("package {}; {} {} {{ {} }}", im[..im.len() - 1].join("."), kind, im[im.len() - 1], body);
            let last = ["package a; interface {", "<<<<<<< HEAD", "", "interface X {}"][(h >> 24) as usize % 4];
            return imp::run_project_with_ghost(&files, &first, last);
        }
        imp::run_project_with_history(&files)
    }

    /// reference validation of file i (Err = don't-care corner)
    pub fn reference(&self, i: usize) -> Result<RefOut, String> {
        refval::validate_ref(&self.docs[i].expected, &self.keys)
    }

    pub fn json(&self) -> Value {
        json!({"files": self.files().iter().map(|f| json!({"id": f.0, "text": f.1})).collect::<Vec<_>>()})
    }
}

pub fn gen_proj(s: &mut Src, pc: &ProjectCfg, lc: &LayoutCfg) -> Result<ProjCase, Fail> {
    let p = gen::project(s, pc);
    let mut c = ProjCase::from_project(p, s, lc)?;
    // now and then one file carries a recovered syntax error: it keeps its tree and its key
    if c.docs.len() >= 2 && s.chance(1, 5) {
        let i = s.below(c.docs.len());
        c.damage(i);
    }
    Ok(c)
}

/// simple layout configuration for checks that are not about layout
pub fn calm_layout() -> LayoutCfg {
    LayoutCfg {
        unicode_ws: false,
        comments: true,
        doc_comments: false,
        lone_cr: false,
        multibyte: true,
        no_sep: false,
        newline_heavy: false,
    }
}
