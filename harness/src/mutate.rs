//! Mutation operators producing malformed (or differently well-formed) inputs from
//! rendered documents, and soups.

use crate::src::Src;
use crate::tok::{ALL_KINDS, KEYWORDS, RESERVED};

/// Strings that are not tokens (or are broken tokens)
pub const JUNK: &[&str] = &[
    "\"abc", "/* abc", "\u{a7}", "#", "\\", "'", "?", "\0", "\u{0301}", "+", "/", "*", "@", "@1", "!", "%", "&", "|", "^", "~",
    ":", "`", "$", "\u{e9}", "\u{65e5}", "\u{FEFF}", "\u{1F600}", "\u{200D}", "1.", "--1", "/*/", "\"a\nb\"",
];

pub const LONG_TOKENS: &[&str] = &[
    "\"a rather long quoted string literal which goes on and on, well past eighty characters, to the very end\"",
    "aVeryLongIdentifierThatKeepsGoingAndGoingWellBeyondSixtyCharactersUntilItFinallyStops_0123456789",
    "123456789012345678901234567890123456789012345678901234567890123456789012345678901234567890",
    "@AnAnnotationWithAnExceptionallyLongNameThatNoOneWouldEverWriteButTheLexerMustAccept",
    // multi-byte characters around byte offsets 40..70 of a long literal
    "\"aaaaaaaaaaaaaaaaaaaaaaaaaaaaaaaaaaaaaaaaaaaaaa\u{e9}t\u{e9} - caf\u{e9} \u{65e5}\u{672c}\u{8a9e}\u{65e5}\u{672c}\u{8a9e}\u{65e5}\u{672c}\u{8a9e}\"",
    "\"aaaaaaaaaaaaaaaaaaaaaaaaaaaaaaaaaaaaaaaaaaaaa\u{e9}\u{e9}\u{e9}\u{e9}\u{e9}\u{e9}\u{e9}\u{e9}\u{e9}\u{e9}\u{e9}\u{e9}\u{e9}\u{e9}\u{e9}\u{e9}\u{e9}\u{e9}\u{e9}\u{e9}\"",
    "\"\u{1F600}\u{1F600}\u{1F600}\u{1F600}\u{1F600}\u{1F600}\u{1F600}\u{1F600}\u{1F600}\u{1F600}\u{1F600}\u{1F600}\u{1F600}\u{1F600}\u{1F600}\u{1F600}\u{1F600}\u{1F600}\u{1F600}\u{1F600}\u{1F600}\u{1F600}\u{1F600}\u{1F600}\u{1F600}\u{1F600}\u{1F600}\u{1F600}\u{1F600}\u{1F600}\u{1F600}\u{1F600}\u{1F600}\u{1F600}\u{1F600}\u{1F600}\u{1F600}\u{1F600}\u{1F600}\u{1F600}\"",
];

pub const EXTRA_WORDS: &[&str] = &[
    "interfaces", "in", "int", "inout2", "1f", ".5", "0", "007", "99999999999", "-", "-5", "x", "Foo", "a.b", "true", "\"s\"",
    "@A", "List", "Map", "String", "void", "oneway", "const", "parcelable", "enum", "interface", "import", "package",
    // case variants of keywords and of the token names the parser prints
    "Interface", "Parcelable", "Enum", "Import", "Oneway", "Package", "Const", "Integer", "Boolean", "Float", "Annotation", "Ident",
    "Direction", "Void", "Primitive", "integer", "ident", "IDENT", "INTEGER", "string", "list",
];

pub fn vocab_token(s: &mut Src) -> String {
    match s.weighted(&[10, 4, 3, 3, 3, 1]) {
        5 => (*s.pick(LONG_TOKENS)).to_owned(),
        0 => s.pick(&ALL_KINDS).repr().to_owned(),
        1 => (*s.pick(EXTRA_WORDS)).to_owned(),
        2 => s.pick(KEYWORDS).0.to_owned(),
        3 => (*s.pick(RESERVED)).to_owned(),
        _ => (*s.pick(JUNK)).to_owned(),
    }
}

/// Token drawn from the grammar's vocabulary only (always lexable)
pub fn clean_vocab_token(s: &mut Src) -> String {
    match s.weighted(&[10, 4, 3, 3, 1]) {
        4 => (*s.pick(LONG_TOKENS)).to_owned(),
        0 => s.pick(&ALL_KINDS).repr().to_owned(),
        1 => (*s.pick(EXTRA_WORDS)).to_owned(),
        2 => s.pick(KEYWORDS).0.to_owned(),
        _ => (*s.pick(RESERVED)).to_owned(),
    }
}

#[derive(Clone, Debug)]
pub struct Mutation {
    pub desc: String,
}

/// Apply 1..=3 mutations to a token-text list
pub fn mutate_tokens(s: &mut Src, toks: &mut Vec<String>, other: &[String], clean: bool) -> Vec<String> {
    let n = s.range(1, 3);
    let mut descs = Vec::new();
    for _ in 0..n {
        let len = toks.len();
        let new_tok = |s: &mut Src| if clean { clean_vocab_token(s) } else { vocab_token(s) };
        match s.weighted(&[5, 5, 5, 3, 3, 2, 2, 2]) {
            0 => {
                // delete 1..4 tokens
                if len > 0 {
                    let i = s.below(len);
                    let k = s.range(1, 4).min(len - i);
                    toks.drain(i..i + k);
                    descs.push(format!("delete {k} at {i}"));
                }
            }
            1 => {
                let i = s.below(len + 1);
                let k = s.range(1, 3);
                for j in 0..k {
                    let t = new_tok(s);
                    toks.insert(i + j, t);
                }
                descs.push(format!("insert {k} at {i}"));
            }
            2 => {
                if len > 0 {
                    let i = s.below(len);
                    toks[i] = new_tok(s);
                    descs.push(format!("replace at {i}"));
                }
            }
            3 => {
                if len > 1 {
                    let i = s.below(len - 1);
                    toks.swap(i, i + 1);
                    descs.push(format!("swap at {i}"));
                }
            }
            4 => {
                if len > 0 {
                    let i = s.below(len);
                    let k = s.range(1, 4).min(len - i);
                    let dup: Vec<String> = toks[i..i + k].to_vec();
                    for (j, d) in dup.into_iter().enumerate() {
                        toks.insert(i + k + j, d);
                    }
                    descs.push(format!("duplicate {k} at {i}"));
                }
            }
            5 => {
                if len > 0 {
                    let i = s.below(len + 1);
                    toks.truncate(i);
                    descs.push(format!("truncate at {i}"));
                }
            }
            6 => {
                if !other.is_empty() {
                    let a = s.below(other.len());
                    let k = s.range(1, 6).min(other.len() - a);
                    let i = s.below(len + 1);
                    for (j, t) in other[a..a + k].iter().enumerate() {
                        toks.insert(i + j, t.clone());
                    }
                    descs.push(format!("splice {k} at {i}"));
                }
            }
            _ => {
                // replace an identifier-like token by a keyword / reserved word
                let idents: Vec<usize> = toks
                    .iter()
                    .enumerate()
                    .filter(|(_, t)| crate::tok::classify_word(t) == crate::tok::K::Ident && t.chars().next().map(|c| c.is_ascii_alphabetic() || c == '_').unwrap_or(false))
                    .map(|(i, _)| i)
                    .collect();
                if !idents.is_empty() {
                    let i = *s.pick(&idents);
                    toks[i] = if s.flip() {
                        s.pick(KEYWORDS).0.to_owned()
                    } else {
                        (*s.pick(RESERVED)).to_owned()
                    };
                    descs.push(format!("keyword as name at {i}"));
                }
            }
        }
    }
    descs
}

const SOUP_CHARS: &[&str] = &[
    "/", "*", "\"", "@", ".", "-", "+", "=", "<", ">", "[", "]", "{", "}", "(", ")", ",", ";", "0", "1", "9", "a", "f", "x", "_",
    "Z", "\r", "\n", " ", "\t", "\u{0085}", "\u{00A0}", "\u{1680}", "\u{2003}", "\u{2028}", "\u{2029}", "\u{202F}", "\u{205F}",
    "\u{3000}", "\u{e9}", "\u{df}", "\u{65e5}", "\u{0301}", "\u{1F468}\u{200D}\u{1F469}", "\u{FEFF}", "\0", "\u{0663}", "\u{FF11}",
    "/*", "*/", "//", "/**", "interface", "package a;", "in", "int", "void f();", "=9999999999",
];

pub fn char_soup(s: &mut Src, max_pieces: usize) -> String {
    let n = s.count(max_pieces);
    let mut t = String::new();
    for _ in 0..n {
        t.push_str(*s.pick(SOUP_CHARS));
    }
    t
}

pub fn token_soup(s: &mut Src, max_tokens: usize) -> Vec<String> {
    let n = s.count(max_tokens);
    (0..n).map(|_| vocab_token(s)).collect()
}
