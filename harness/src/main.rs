use vh::core::{run_check, run_replay, Tier};

fn usage() -> ! {
    eprintln!("usage: vh <ID> <quick|thorough> | vh <ID> --replay <file> | vh --list");
    std::process::exit(2);
}

fn main() {
    let args: Vec<String> = std::env::args().skip(1).collect();
    if args.first().map(|s| s.as_str()) == Some("--list") {
        for p in vh::props::all() {
            println!("{}", p.id());
        }
        return;
    }
    if args.len() < 2 {
        usage();
    }
    let Some(p) = vh::props::by_id(&args[0]) else {
        eprintln!("unknown property {}", args[0]);
        std::process::exit(2);
    };
    let code = match args[1].as_str() {
        "--replay" => {
            if args.len() < 3 {
                usage();
            }
            run_replay(p.as_ref(), &args[2])
        }
        "quick" => run_check(p.as_ref(), Tier::Quick),
        "thorough" => run_check(p.as_ref(), Tier::Thorough),
        _ => usage(),
    };
    std::process::exit(code);
}
