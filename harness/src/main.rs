use vh::core::{run_check, run_replay, Tier};

fn usage() -> ! {
    eprintln!("usage: vh <ID> <quick|thorough> | vh <ID> --replay <file> | vh --list");
    std::process::exit(2);
}

fn main() {
    let args: Vec<String> = std::env::args().skip(1).collect();
    if args.first().map(|s| s.as_str()) == Some("--list") {
        for p in vh::props::all() {
            println!("{}", p.id());
        }
        return;
    }
    if args.first().map(|s| s.as_str()) == Some("c11-dump") && args.len() >= 2 {
        std::process::exit(vh::props::c11::child_dump(&args[1]));
    }
    if args.first().map(|s| s.as_str()) == Some("fuzz-replay") && args.len() >= 2 {
        // run the model-free oracles of the fuzz_text target on a saved input
        let data = std::fs::read(&args[1]).unwrap_or_default();
        let Ok(text) = String::from_utf8(data) else {
            println!("OK (not UTF-8: ignored by the target)");
            return;
        };
        let env = vh::core::make_env(Tier::Thorough, true);
        let mut st = vh::core::Stats::default();
        match vh::fuzzing::check_input(&env, &text, &mut st) {
            Ok(()) => println!("OK all selected oracles hold on this input"),
            Err(e) => {
                println!("ORACLE-FAILURE {e}");
                std::process::exit(1);
            }
        }
        return;
    }
    if args.first().map(|s| s.as_str()) == Some("fuzz-replay-struct") && args.len() >= 2 {
        let data = std::fs::read(&args[1]).unwrap_or_default();
        if data.len() < 9 {
            println!("OK (too short)");
            return;
        }
        let sel = std::env::var("VERIF_ORACLES").unwrap_or_default();
        let props: Vec<_> = vh::props::all()
            .into_iter()
            .filter(|p| sel.is_empty() || sel.split(',').any(|x| x.trim() == p.id()))
            .collect();
        let p = &props[data[0] as usize % props.len()];
        let env = vh::core::make_env(Tier::Thorough, true);
        let mut st = vh::core::Stats::default();
        match p.random(&env, &data[1..], &mut st) {
            Ok(()) => println!("OK property {} holds on this choice sequence", p.id()),
            Err(f) if f.harness_error => println!("HARNESS-ERROR {}", f.msg),
            Err(f) => {
                println!("ORACLE-FAILURE {}: {}", p.id(), f.msg);
                println!("CASE {}", vh::core::bytes_case(&data[1..], serde_json::json!({})));
                std::process::exit(1);
            }
        }
        return;
    }
    if args.len() < 2 {
        usage();
    }
    let Some(p) = vh::props::by_id(&args[0]) else {
        eprintln!("unknown property {}", args[0]);
        std::process::exit(2);
    };
    let code = match args[1].as_str() {
        "--replay" => {
            if args.len() < 3 {
                usage();
            }
            run_replay(p.as_ref(), &args[2])
        }
        "quick" => run_check(p.as_ref(), Tier::Quick),
        "thorough" => run_check(p.as_ref(), Tier::Thorough),
        _ => usage(),
    };
    std::process::exit(code);
}
