fn main() {
    let text = std::env::args().nth(1).unwrap();
    let text = text.replace("\\n", "\n").replace("\\r", "\r").replace("\\t", "\t");
    let (p, v) = vh::imp::run_one(&text).unwrap();
    println!("PARSE AST: {:#?}", p.ast);
    println!("PARSE DIAGS: {:#?}", p.diagnostics);
    println!("VALID DIAGS: {:#?}", v.diagnostics);
}
