use std::collections::BTreeMap;
use std::time::Instant;
use vh::src::Src;
fn main() {
    let mut t_imp: BTreeMap<&str, (f64, f64, u32, usize)> = BTreeMap::new();
    let mut x = 12345u64;
    for _ in 0..3000 {
        let bytes: Vec<u8> = (0..1500).map(|_| { x = vh::src::splitmix64(x); (x >> 32) as u8 }).collect();
        let mut s = Src::new(&bytes);
        let (text, fam) = vh::props::c01::gen_text(&mut s);
        let t0 = Instant::now();
        let _ = vh::imp::run_project(&[("a".into(), text.clone())]);
        let a = t0.elapsed().as_secs_f64();
        let t0 = Instant::now();
        let _ = vh::refgram::text_verdict(&text);
        let b = t0.elapsed().as_secs_f64();
        let e = t_imp.entry(fam).or_default();
        e.0 += a; e.1 += b; e.2 += 1; e.3 += text.len();
    }
    for (k, v) in t_imp { println!("{k:12} n={} imp={:.3}s ref={:.3}s avglen={}", v.2, v.0, v.1, v.3 / v.2 as usize); }
}
