use vh::src::Src;
fn main() {
    let mut x = 7u64;
    for _ in 0..6 {
        let bytes: Vec<u8> = (0..600).map(|_| { x = vh::src::splitmix64(x); (x >> 32) as u8 }).collect();
        let mut s = Src::new(&bytes);
        let k = vh::refgram::with_grammar(|g| g.random_sentence(&mut s, 9));
        println!("{} tokens: {}", k.len(), k.iter().map(|k| k.repr()).collect::<Vec<_>>().join(" "));
    }
}
