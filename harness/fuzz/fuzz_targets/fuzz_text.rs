#![no_main]
//! Byte-level target: the input is UTF-8 text (several files separated by a marker line);
//! all model-free oracles selected by VERIF_ORACLES run inside the target.
use libfuzzer_sys::fuzz_target;
use std::sync::OnceLock;
use vh::core::{make_env, Env, Stats, Tier};

static ENV: OnceLock<Env> = OnceLock::new();

fuzz_target!(|data: &[u8]| {
    let Ok(text) = std::str::from_utf8(data) else { return };
    let env = ENV.get_or_init(|| make_env(Tier::Thorough, false));
    let mut st = Stats::default();
    if let Err(e) = vh::fuzzing::check_input(env, text, &mut st) {
        panic!("ORACLE-FAILURE {e}");
    }
});
