#![no_main]
//! Structured target: the bytes are a choice sequence; the first byte selects the
//! property whose generator + oracle decodes and checks the rest (same code as the
//! proptest-driven random tier, so coverage feedback steers the structured generators).
use libfuzzer_sys::fuzz_target;
use std::sync::OnceLock;
use vh::core::{make_env, Env, Prop, Stats, Tier};

static ENV: OnceLock<Env> = OnceLock::new();
static PROPS: OnceLock<Vec<Box<dyn Prop>>> = OnceLock::new();

fuzz_target!(|data: &[u8]| {
    if data.len() < 9 {
        return;
    }
    let env = ENV.get_or_init(|| make_env(Tier::Thorough, false));
    let props = PROPS.get_or_init(|| {
        let sel = std::env::var("VERIF_ORACLES").unwrap_or_default();
        vh::props::all()
            .into_iter()
            .filter(|p| sel.is_empty() || sel.split(',').any(|x| x.trim() == p.id()))
            .collect()
    });
    let p = &props[data[0] as usize % props.len()];
    let mut st = Stats::default();
    if let Err(f) = p.random(env, &data[1..], &mut st) {
        if !f.harness_error {
            panic!("ORACLE-FAILURE {}: {}", p.id(), f.msg);
        }
    }
});
