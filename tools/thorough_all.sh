#!/bin/bash
# Run every thorough tier once (with the libFuzzer stage); results and evidence go to $OUT.
# usage: tools/thorough_all.sh [outdir [ID ...]]   (default: all 20)
here="$(cd "$(dirname "$0")/.." && pwd)"
OUT=${1:-/tmp/thorough-out}
mkdir -p "$OUT"
export VERIF_OUT_DIR="$OUT"
shift 2>/dev/null
ids=("$@"); [ ${#ids[@]} -eq 0 ] && ids=($(seq -f "C%02g" 1 20))
for i in "${ids[@]}"; do
    s=$(date +%s)
    "$here/vcheck" $i thorough > "$OUT/$i.log" 2>&1
    c=$?
    echo "$i exit=$c wall=$(( $(date +%s) - s ))s :: $(grep -E '^(OK|FAILED|VIOLATION|KNOWN|HARNESS|INCONCL|fuzz stage|FUZZ)' "$OUT/$i.log" | cut -c1-150 | tr '\n' '|')"
done
