#!/bin/bash
# Apply a seeded change to a checkout of the library, run quick checks against it, undo it.
# usage: tools/seedrun.sh <patch.diff> [ID ...]     (default: all 20 checks)
# env:   MREPO    checkout to patch (default /repo)
#        MHARNESS harness directory whose Cargo.toml points at $MREPO (default /verif/harness)
# Output: one line per check: CAUGHT / missed / error, plus the first VIOLATION message.
# Evidence and replay files of these runs go to a scratch directory, never to /verif.
set -u
patch=$(readlink -f "$1"); shift
ids=("$@")
if [ ${#ids[@]} -eq 0 ]; then ids=($(seq -f "C%02g" 1 20)); fi
repo=${MREPO:-/repo}
harness=${MHARNESS:-/verif/harness}
out=$(mktemp -d /tmp/seedrun.XXXXXX)
cleanup() { git -C "$repo" checkout -q -- . ; rm -rf "$out"; }
trap cleanup EXIT
if [ -n "$(git -C "$repo" status --porcelain --untracked-files=no)" ]; then echo "$repo is dirty"; exit 2; fi
if ! git -C "$repo" apply "$patch"; then echo "patch does not apply"; exit 2; fi
export VERIF_OUT_DIR="$out"
export CARGO_NET_OFFLINE=true
if ! (cd "$harness" && cargo build --release --offline > "$out/build.log" 2>&1); then
    echo "build failed: $(grep -E '^error' -A6 "$out/build.log" | head -12 | tr '\n' ' ')"; exit 2
fi
caught=()
for id in "${ids[@]}"; do
    log="$out/$id.log"
    (cd "$harness" && ./target/release/vh "$id" quick) > "$log" 2>&1
    code=$?
    case $code in
        0) echo "$id missed" ;;
        1) echo "$id CAUGHT: $(grep -A1 '^VIOLATION' "$log" | tail -1 | cut -c1-220)"; caught+=("$id") ;;
        *) echo "$id error(exit $code): $(tail -3 "$log" | tr '\n' ' ' | cut -c1-300)" ;;
    esac
done
echo "caught-by: ${caught[*]:-none}"
