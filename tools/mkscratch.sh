#!/bin/bash
# Create scratch copies of the library and the harness for mutant runs that must not
# disturb /repo or /verif/harness:  tools/mkscratch.sh /tmp/m1  ->  /tmp/m1/repo, /tmp/m1/harness
set -eu
d=$1
rm -rf "$d"; mkdir -p "$d"
git clone -q /repo "$d/repo"
rsync -a --exclude target --exclude fuzz /verif/harness/ "$d/harness/"
sed -i "s#path = \"/repo\"#path = \"$d/repo\"#" "$d/harness/Cargo.toml"
(cd "$d/harness" && CARGO_NET_OFFLINE=true cargo build --release --offline 2>&1 | tail -1)
echo "MREPO=$d/repo MHARNESS=$d/harness"
