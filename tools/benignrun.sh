#!/bin/bash
# Re-run the stored behaviour-preserving changes (/verif/benign/*/patch.diff) against all 20
# quick checks in a scratch copy; any alarm is a candidate false alarm.
# usage: MREPO=/tmp/m2/repo MHARNESS=/tmp/m2/harness tools/benignrun.sh [outdir]
set -u
export MREPO=${MREPO:-/tmp/m2/repo} MHARNESS=${MHARNESS:-/tmp/m2/harness}
out=${1:-/tmp/benignlogs2}; mkdir -p "$out"
bad=0
for d in /verif/benign/*/; do
    id=$(basename "$d")
    log="$out/$id.log"
    [ -f "$log" ] && continue
    /verif/tools/seedrun.sh "$d/patch.diff" > "$log" 2>&1
    r=$(grep caught-by "$log")
    echo "$id: $r"
    case "$r" in *"caught-by: none"*) ;; *) bad=1;; esac
done
exit $bad
