#!/usr/bin/env python3
"""Rewrite the quick-tier table in DESIGN.md section 0 from /verif/evidence/*.json."""
import json, re, os
here = os.path.join(os.path.dirname(os.path.abspath(__file__)), "..")
rows = []
for i in range(1, 21):
    e = json.load(open(f"{here}/evidence/C{i:02d}.json"))
    assert e["tier"] == "quick", (i, e["tier"])
    c = e["coverage"]
    rows.append(f"| C{i:02d} | {c['evaluations']} | {c['distinct_nontrivial']} | {c['enumerated_cases']} | {c['random_cases_requested']} | {e['wall_s']:.0f} |")
p = f"{here}/DESIGN.md"
s = open(p).read()
rx = re.compile(r"(\| id \| evaluations \| distinct non-trivial \| enumerated \| random \| wall s \|\n\|[-|]+\|\n)((?:\| C\d\d \|.*\n)+)")
assert rx.search(s)
s = rx.sub(lambda m: m.group(1) + "\n".join(rows) + "\n", s, count=1)
open(p, "w").write(s)
print("\n".join(rows))
