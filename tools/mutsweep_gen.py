#!/usr/bin/env python3
"""Generate single-token mutants of the library's non-test sources.

usage: tools/mutsweep_gen.py <repo> > mutants.jsonl
Each line: {"id", "file", "line" (1-based), "old" (full line), "new" (full line), "op"}.
Deterministic: a pure function of the sources.  Lines inside test modules, hook code
(`verif-hooks`), comments, attributes and `use` items are not mutated.
"""
import json, re, sys, os

repo = sys.argv[1]
FILES = ["src/validation.rs", "src/parser.rs", "src/ast.rs", "src/traverse.rs", "src/symbol.rs",
         "src/diagnostic.rs", "src/javadoc.rs", "src/aidl.lalrpop"]

# (name, regex, replacement) - applied per occurrence
OPS = [
    ("eq->ne", r" == ", " != "),
    ("ne->eq", r" != ", " == "),
    ("lt->le", r" < ", " <= "),
    ("le->lt", r" <= ", " < "),
    ("gt->ge", r" > ", " >= "),
    ("ge->gt", r" >= ", " > "),
    ("and->or", r" && ", " || "),
    ("or->and", r" \|\| ", " && "),
    ("plus->minus", r" \+ ", " - "),
    ("minus->plus", r" - ", " + "),
    ("pluseq->minuseq", r" \+= ", " -= "),
    ("one->zero", r"\b1\b", "0"),
    ("zero->one", r"\b0\b", "1"),
    ("true->false", r"\btrue\b", "false"),
    ("false->true", r"\bfalse\b", "true"),
    ("drop-not", r"(?<![=!<>])!(?=[a-zA-Z_(])(?!\()", ""),
    ("some->none", r"\.is_some\(\)", ".is_none()"),
    ("none->some", r"\.is_none\(\)", ".is_some()"),
    ("empty->nonempty", r"(\b[\w.]+)\.is_empty\(\)", r"!\1.is_empty()"),
    ("any->all", r"\.any\(", ".all("),
    ("all->any", r"\.all\(", ".any("),
    ("min->max", r"\.min\(", ".max("),
    ("max->min", r"\.max\(", ".min("),
    ("first->last", r"\.first\(\)", ".last()"),
    ("last->first", r"\.last\(\)", ".first()"),
    ("next->last", r"\.next\(\)", ".last()"),
    ("continue->break", r"\bcontinue;", "break;"),
    ("break->continue", r"\bbreak;", "continue;"),
    ("start->end", r"\.start\b", ".end"),
    ("end->start", r"\.end\b", ".start"),
    ("ok->err-unwrap_or", r"\.unwrap_or\(true\)", ".unwrap_or(false)"),
    ("filter-negate", r"\.filter\(\|([^|]*)\| ", r".filter(|\1| !"),
    ("skip1", r"\.skip\(1\)", ".skip(0)"),
    ("saturating", r"saturating_sub\(1\)", "saturating_sub(0)"),
    ("iter-skip-first", r"\.iter\(\)", ".iter().skip(1)"),
    ("iter-rev", r"\.iter\(\)", ".iter().rev()"),
    ("for-skip-first", r"\bin &([\w.]+) \{", r"in \1.iter().skip(1) {"),
    ("drop-rev", r"\.rev\(\)", ""),
    ("into_iter-skip-first", r"\.into_iter\(\)", ".into_iter().skip(1)"),
]

STMT = re.compile(r"^\s*[a-z_][\w.]*(\.|::)?[\w.:]*\(.*\);\s*$")


def balanced(s):
    return s.count("(") == s.count(")") and s.count("{") == s.count("}") and s.count("[") == s.count("]")


def main():
    out = []
    for f in FILES:
        lines = open(os.path.join(repo, f), encoding="utf-8").read().split("\n")
        end = len(lines)
        for i, l in enumerate(lines):
            if l.strip() == "#[cfg(test)]":
                end = i
                break
        in_hook = 0
        depth_at_hook = None
        depth = 0
        n = 0
        for i in range(end):
            l = lines[i]
            st = l.strip()
            if "verif-hooks" in l or "verif_" in l:
                in_hook = 12  # skip the item that follows (hooks are short)
            if in_hook > 0:
                in_hook -= 1
                continue
            if not st or st.startswith("//") or st.startswith("#[") or st.startswith("use ") or st.startswith("pub use"):
                continue
            if "debug_assert" in l or "unreachable!" in l or "panic!" in l:
                continue
            code = l.split("//")[0] if '"' not in l else l
            for name, rx, rep in OPS:
                for k, m in enumerate(re.finditer(rx, code)):
                    # not inside a string literal (rough: even number of quotes before)
                    if code[: m.start()].count('"') % 2 == 1:
                        continue
                    # not inside a trailing comment
                    c = code.find("//")
                    while c >= 0 and code[:c].count('"') % 2 == 1:
                        c = code.find("//", c + 2)
                    if 0 <= c < m.start():
                        continue
                    new = code[: m.start()] + m.expand(rep) + code[m.end():]
                    if new == code:
                        continue
                    n += 1
                    out.append({"id": f"{os.path.basename(f).split('.')[0]}-{i+1}-{name}-{k}", "file": f, "line": i + 1,
                                "old": l, "new": new + l[len(code):], "op": name})
            # statement deletion: a complete single-line call statement
            if STMT.match(l) and balanced(l) and not st.startswith("let ") and not st.startswith("return"):
                out.append({"id": f"{os.path.basename(f).split('.')[0]}-{i+1}-delstmt-0", "file": f, "line": i + 1,
                            "old": l, "new": l[: len(l) - len(l.lstrip())] + "();" if False else "", "op": "delete-statement"})
    for m in out:
        print(json.dumps(m))
    sys.stderr.write(f"{len(out)} mutants\n")


main()
