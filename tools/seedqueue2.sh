#!/bin/bash
# Second-round seeds delivered in /tmp/w2-C*/seed/<k>/ (k = 1, 2) are numbered <ID>-3, <ID>-4.
# Verify each and run its own property's quick check (scratch copy m2).
set -u
export MREPO=${MREPO:-/tmp/m2/repo} MHARNESS=${MHARNESS:-/tmp/m2/harness}
mkdir -p /tmp/seedlogs/own /tmp/seedlogs/verify
for sd in /tmp/w2-C*/seed/*/; do
    [ -f "$sd/patch.diff" ] && [ -f "$sd/demo.rs" ] && [ -f "$sd/meta.json" ] || continue
    prop=$(echo "$sd" | sed -E 's#/tmp/w2-(C[0-9]+)/seed/([0-9]+)/#\1#')
    k=$(echo "$sd" | sed -E 's#/tmp/w2-(C[0-9]+)/seed/([0-9]+)/#\2#')
    id="$prop-$((k+2))"
    vlog=/tmp/seedlogs/verify/$id.log
    if [ ! -f "$vlog" ]; then /verif/tools/seedverify.sh "$sd" > "$vlog" 2>&1; fi
    log=/tmp/seedlogs/own/$id.log
    [ -f "$log" ] && continue
    /verif/tools/seedrun.sh "$sd/patch.diff" "$prop" > "$log" 2>&1
    echo "done $id: $(grep caught-by "$log")"
done
