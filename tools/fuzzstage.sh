#!/bin/bash
# Coverage-guided stage of a thorough run.
# usage: tools/fuzzstage.sh <ID> <target fuzz_text|fuzz_struct> <oracles e.g. C01,C04> <runs per job> [jobs]
# Exit 0: no oracle failure; 1: VIOLATION printed (confirmed by the ordinary release harness);
# 2: infrastructure (nightly build failed etc.). Appends a "fuzz" block to evidence/<ID>.json.
set -u
id=$1; target=$2; oracles=$3; runs=$4; jobs=${5:-16}
here="$(cd "$(dirname "$0")/.." && pwd)"
seed=${VERIF_SEED:-41425}
case "$seed" in 0x*) seed=$((seed));; esac
[ "$seed" -eq 0 ] 2>/dev/null && seed=1
export CARGO_NET_OFFLINE=true
cd "$here/harness" || exit 2
if ! out=$(cargo +nightly fuzz build -s none "$target" 2>&1); then
    echo "FUZZ-BUILD-FAILED (infrastructure): $(echo "$out" | tail -5)"; exit 2
fi
work=$(mktemp -d /tmp/fuzzstage.XXXXXX)
trap 'rm -rf "$work"' EXIT
mkdir -p "$work/corpus" "$work/artifacts"
if [ "$target" = fuzz_text ]; then cp "$here"/corpus/* "$work/corpus/" 2>/dev/null; fi
bin="$here/harness/fuzz/target/x86_64-unknown-linux-gnu/release/$target"
t0=$(date +%s)
( cd "$work" && VERIF_NO_XPROC=1 VERIF_ORACLES="$oracles" "$bin" "$work/corpus" -runs="$runs" -seed="$seed" -jobs="$jobs" -workers="$jobs" \
    -dict="$here/dict/aidl.dict" -len_control=0 -max_len=4096 -timeout=60 -rss_limit_mb=4096 \
    -artifact_prefix="$work/artifacts/" -print_final_stats=1 > "$work/driver.log" 2>&1 )
t1=$(date +%s)
execs=$(grep -h "stat::number_of_executed_units" "$work"/fuzz-*.log 2>/dev/null | awk '{s+=$2} END {print s+0}')
corpus=$(ls "$work/corpus" | wc -l)
code=0
for a in "$work"/artifacts/*; do
    [ -f "$a" ] || continue
    case "$(basename "$a")" in timeout-*|slow-unit-*|oom-*) echo "fuzz: $(basename "$a") (time/memory budget, not a violation)"; continue;; esac
    if [ "$target" = fuzz_text ]; then
        res=$(VERIF_ORACLES="$oracles" ./target/release/vh fuzz-replay "$a" 2>&1); rc=$?
    else
        res=$(VERIF_ORACLES="$oracles" ./target/release/vh fuzz-replay-struct "$a" 2>&1); rc=$?
    fi
    if [ $rc -ne 0 ]; then
        pid=$(echo "$res" | grep -o "ORACLE-FAILURE C[0-9]*" | head -1 | awk '{print $2}'); pid=${pid:-$id}
        outdir="${VERIF_OUT_DIR:-$here}/regressions/$pid"; mkdir -p "$outdir"
        h=$(md5sum "$a" | cut -c1-16)
        python3 - "$a" "$outdir/fuzz-$h.json" "$pid" "$target" "$res" <<'PY'
import sys, json
data=open(sys.argv[1],'rb').read()
out,pid,target,res=sys.argv[2],sys.argv[3],sys.argv[4],sys.argv[5]
if target=='fuzz_text':
    text=data.decode('utf-8','replace')
    files=[{"id":"f%d"%i,"text":t} for i,t in enumerate(text.split("\n//====\n")[:6])]
    case={"kind":"text","files":files,"text":files[0]["text"],"property":pid,"message":res,"found_by":"libFuzzer fuzz_text"}
else:
    case={"kind":"bytes","hex":data[1:].hex(),"property":pid,"message":res,"found_by":"libFuzzer fuzz_struct"}
json.dump(case,open(out,'w'),indent=1,ensure_ascii=False)
PY
        echo "VIOLATION property=$pid replay=$outdir/fuzz-$h.json"
        echo "  $(echo "$res" | head -2 | tr '\n' ' ' | cut -c1-400)"
        code=1
    else
        echo "fuzz: artifact $(basename "$a") does not reproduce in the release harness (ignored)"
    fi
done
ev="${VERIF_OUT_DIR:-$here}/evidence/$id.json"
if [ -f "$ev" ]; then
python3 - "$ev" "$target" "$oracles" "$execs" "$corpus" "$seed" "$jobs" "$runs" "$((t1-t0))" <<'PY'
import sys, json
ev=json.load(open(sys.argv[1]))
ev["coverage"]["fuzz"]={"engine":"libFuzzer (cargo-fuzz, -s none)","target":sys.argv[2],"oracles":sys.argv[3],"executions":int(sys.argv[4]),"final_corpus_files":int(sys.argv[5]),"seed":int(sys.argv[6]),"jobs":int(sys.argv[7]),"runs_per_job":int(sys.argv[8]),"wall_s":int(sys.argv[9])}
ev["coverage"]["evaluations"]=ev["coverage"]["evaluations"]+int(sys.argv[4])
ev["wall_s"]=ev["wall_s"]+int(sys.argv[9])
json.dump(ev,open(sys.argv[1],'w'),indent=1)
PY
fi
echo "fuzz stage: target=$target oracles=$oracles executions=$execs corpus=$corpus wall_s=$((t1-t0))"
exit $code
