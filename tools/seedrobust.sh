#!/bin/bash
# Robustness of detection: re-run every seeded change against its own property's quick
# check with several other VERIF_SEED values. A change caught with the default seed but not
# with others marks a generator family that is too rare.
# usage: tools/seedrobust.sh <scratch> <shard> <nshards> <outfile> [seed ...]
set -u
scratch=$1; shard=$2; n=$3; outf=$4; shift 4
seeds=("$@"); [ ${#seeds[@]} -eq 0 ] && seeds=(101 202 303)
repo=$scratch/repo; harness=$scratch/harness
export CARGO_NET_OFFLINE=true
i=0
for d in /verif/seeded/*/; do
    id=$(basename "$d"); i=$((i+1))
    [ $((i % n)) -eq $shard ] || continue
    grep -q "^$id " "$outf" 2>/dev/null && continue
    prop=$(python3 -c "import json,sys; print(json.load(open('$d/meta.json'))['property'])")
    git -C "$repo" checkout -q -- .
    if ! git -C "$repo" apply "$d/patch.diff"; then echo "$id $prop apply-failed" >> "$outf"; continue; fi
    if ! (cd "$harness" && cargo build --release --offline > /tmp/robust-build-$shard.log 2>&1); then echo "$id $prop build-failed" >> "$outf"; git -C "$repo" checkout -q -- .; continue; fi
    res=""
    for s in "${seeds[@]}"; do
        out=$(mktemp -d /tmp/robust.XXXXXX)
        (cd "$harness" && VERIF_OUT_DIR="$out" VERIF_SEED=$s ./target/release/vh "$prop" quick > "$out/log" 2>&1); c=$?
        res="$res $s:$c"
        rm -rf "$out"
    done
    git -C "$repo" checkout -q -- .
    echo "$id $prop$res" >> "$outf"
done
