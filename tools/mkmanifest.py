#!/usr/bin/env python3
"""Regenerates /verif/MANIFEST.json from the table below (kept in one place so the
manifest stays valid while checks are added)."""
import json, subprocess, sys

CHECKS = {
    # id: (technique, level text, level note, design ref)
    "C01": ("proptest-seeded structured random generation (7 input families, 1-6 files) + deterministic choice-sequence shrinking; oracle: no panic, key set == id set, id tags",
            "Generated-input search: tens of thousands (quick) to millions (thorough) of documents, soups, mutants and targeted injections per run, each executed against the real add_content/validate with panics caught. Exploration is the right level: totality over all UTF-8 strings cannot be enumerated, and the two historical crashes needed exactly the conjunctions these generators construct.",
            "Trusted: the harness's panic capture and the reference lexer/grammar used only for classifying cases. Hangs are detected only by a 60 s per-case watchdog (exit 2, inconclusive).",
            "DESIGN.md section 4, C01"),
}

PENDING_REASON = "check not built yet in this revision (planned: see DESIGN.md section 4); property-based testing applies"

ALL = ["C%02d" % i for i in range(1, 21)]

def main():
    hooks_commits = subprocess.run(["git", "-C", "/repo", "log", "--format=%H %s"], capture_output=True, text=True).stdout.splitlines()
    hook_shas = [l.split()[0] for l in hooks_commits if "verif-hooks" in l]
    m = {
        "version": 1,
        "setup_cmd": "./setup.sh",
        "hooks": {
            "guard": "cargo feature verif-hooks (off by default)",
            "enable": "the harness crate depends on aidl-parser = { path = \"/repo\", features = [\"verif-hooks\"] }; every check runs `cargo build --release --offline` in /verif/harness first, which rebuilds /repo's working tree",
            "baseline_off_cmd": "cd /repo && cargo test --workspace --no-fail-fast --offline",
            "source_commits": hook_shas,
            "add_only": True,
        },
        "engines": [
            {"name": "vh", "path": "harness", "serves_properties": sorted(CHECKS.keys()),
             "kind_free_text": "Rust harness: proptest-seeded choice-sequence generators, bounded-exhaustive enumerators, reference lexer / Earley grammar / validator / traversal oracles, deterministic shrinking, replay files"},
        ],
        "checks": [],
        "not_applicable": [],
        "notes": "All checks: ./vcheck <ID> <quick|thorough>; replay: ./vcheck <ID> --replay <file>. Exit 0 held, 1 violation, 2 infrastructure/inconclusive. VERIF_SEED selects the seed (default 0xA1D1). Known findings: known_findings.json.",
    }
    for pid in ALL:
        if pid in CHECKS:
            tech, text, note, ref = CHECKS[pid]
            m["checks"].append({
                "property_id": pid,
                "quick_cmd": f"./vcheck {pid} quick",
                "thorough_cmd": f"./vcheck {pid} thorough",
                "evidence_file": f"/verif/evidence/{pid}.json",
                "replay_cmd_template": f"./vcheck {pid} --replay {{path}}",
                "engine": "vh",
                "level_claimed": {"category": "exploration", "text": text, "design_ref": ref},
                "level_note": note,
                "technique": tech,
            })
        else:
            m["not_applicable"].append({"property_id": pid, "reason": PENDING_REASON})
    json.dump(m, open("/verif/MANIFEST.json", "w"), indent=1)
    print("wrote MANIFEST.json with", len(m["checks"]), "checks")

if __name__ == "__main__":
    main()
