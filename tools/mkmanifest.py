#!/usr/bin/env python3
"""Regenerates /verif/MANIFEST.json from the table below (kept in one place so the
manifest stays valid while checks are added)."""
import json, subprocess, sys

T_ASSUME = "Trusted base: the harness's own oracles under /verif/harness/src (hand-written reference lexer, Earley recogniser over the transcribed grammar, reference validator, position / traversal models), derived from the property statements and the pinned grammar, never from the implementation's answers. "
EXPL = " Exploration is the level claimed: the quantifier is infinite (or astronomically large), so nothing is proved; the evidence file states how many cases were generated, how many were non-trivial and shows samples."

CHECKS = {
    "C01": ("proptest-seeded structured random generation (7 input families, 1-6 files) + deterministic choice-sequence shrinking; oracle: no panic, key set == id set, id tags",
            "Tens of thousands (quick) to millions (thorough) of documents, soups, token mutants, targeted multi-byte / Unicode-whitespace injections, deep and long inputs per run, each executed against the real add_content / validate with panics caught; the two historical crashes needed exactly the conjunctions these generators construct." + EXPL,
            T_ASSUME + "Hangs are detected only by a 60 s per-case watchdog (exit 2, inconclusive); a stack overflow would kill the checker and is reported as a crashed check.",
            "DESIGN.md section 4, C01"),
    "C02": ("generated document models x 2-4 random layouts; oracle: expected tree built from the model (round-trip model -> text -> tree) + metamorphic equality across layouts",
            "Every run renders thousands of models (all item kinds, member forms, types to depth 4, all value / annotation forms, near-keyword names) under independent layouts and compares the returned tree field by field with a tree built from the model alone." + EXPL,
            T_ASSUME + "Only constructs the model can express; duplicate annotation keys are not generated.",
            "DESIGN.md section 4, C02"),
    "C03": ("bounded-exhaustive token-sequence substitution into 17 syntactic slots + exhaustive keyword/reserved-word name slots + random token mutation; differential oracle: reference lexer + Earley recogniser verdict vs parse-stage result",
            "All token-kind sequences up to length 2 (thorough 3) in seventeen slots, all ~58 keywords / reserved words and near-keywords in 14 identifier positions, random sentences derived from the transcribed grammar, documents with 1-300 validation diagnostics in front of a recovered error, plus tens of thousands of random mutants: the reference verdict must equal 'clean parse', errors must survive validation, the first error must sit on the first non-viable token, and no keyword may be stored as a name." + EXPL,
            T_ASSUME + "Overflowing transact codes and unknown numeric characters are excluded from the verdict comparison (counted).",
            "DESIGN.md section 4, C03"),
    "C04": ("generated documents with a token table: exact expected range of every node from the renderer, offset->(line, grapheme column) oracle, structural nesting checks; reference token table for syntax diagnostics on mutated inputs",
            "Every range of every returned tree (about a million per quick run) is compared with the range computed from the generator's token table under multi-byte, CRLF and Unicode-whitespace layouts; every position anywhere is checked against the line/column oracle; malformed inputs must report token-exact syntax ranges." + EXPL,
            T_ASSUME + "unicode-segmentation is trusted for grapheme clusters (cross-checked by a char count on simple lines). Lone-CR layouts are excluded from exact comparison.",
            "DESIGN.md section 4, C04"),
    "C05": ("generated multi-file projects over an adversarial name space; differential oracle: reference resolver (AIDL scoping rules from the statement) vs Type.kind of every node + 'unknown type' Errors",
            "Thousands of projects per run with near-miss names, partial qualification, built-in imports and references nested to depth 4 (enumerated cases to depth 64), final contents reached through short edit histories, one file in five projects carrying a recovered syntax error; the kind of every type node and the exact multiset of 'unknown type' errors are compared with a reference resolver written from the statement." + EXPL,
            T_ASSUME + "Don't-care corners are discarded and counted (see evidence.coverage.discards).",
            "DESIGN.md section 4, C05"),
    "C06": ("generated projects with rich import / forward-declaration lists; reference classifier computes the exact expected diagnostic multiset on every statement",
            "Every import and forward declaration of every generated file is classified by the reference (duplicate / unresolved / unused / conflict / repeated / used) and the multiset of diagnostics sitting on those statements (kind, range, related ranges) must match exactly." + EXPL,
            T_ASSUME + "Don't-care corners are discarded and counted.",
            "DESIGN.md section 4, C06"),
    "C07": ("exhaustive enumeration of 17 type categories x 4 directions x method/interface oneway x 24 argument positions through real multi-file resolution, plus random projects; reference table from the statement",
            "The finite product named in the property is enumerated completely on every run (6528 projects), each category produced through real cross-file resolution; random projects add arbitrary contexts. Errors on direction keywords / type starts are compared as multisets." + EXPL,
            T_ASSUME + "`void` as argument type is asserted as 'only in / none' (grounded in the code's table; the statement does not list it).",
            "DESIGN.md section 4, C07"),
    "C08": ("exhaustive enumeration of container shapes (depth <= 2 quick, depth <= 3 thorough) over 16 leaf categories in 4 positions + random projects; reference element tables from the statement",
            "All 304 shapes with one container level in all four positions on every quick run (plus a 9000-shape sample of the next level; thorough: all 93040 two-level shapes), each element's diagnostics compared as a multiset with the statement's tables." + EXPL,
            T_ASSUME + "'unknown type' errors are excluded on both sides (C05's business).",
            "DESIGN.md section 4, C08"),
    "C09": ("exhaustive enumeration of method sequences (length <= 4 quick, 5 thorough) over 3 names x {no code, 3 codes} with constants interleaved + random longer sequences; single-pass reference model from the statement",
            "Every sequence in the bounded space is run and the diagnostics on method names and transact codes (kind, range, related range) are compared with a reference model of the first-occurrence bookkeeping." + EXPL,
            T_ASSUME + "Overflowing codes are excluded.",
            "DESIGN.md section 4, C09"),
    "C10": ("exhaustive enumeration interface oneway x up to 2 (thorough 3) methods x method oneway x 17 return categories + random projects; reference propagation model",
            "The finite product is enumerated completely; Method.oneway after validation, the redundant-keyword warnings and the return-type errors are compared with the reference." + EXPL,
            T_ASSUME,
            "DESIGN.md section 4, C10"),
    "C11": ("generated projects x 8 fresh parsers with permuted insertion orders (one on another thread, validate twice); oracle: all results equal + ascending start offsets",
            "Every generated project is validated by eight independent parsers (fresh hash seeds) with different insertion orders, and sampled cases by a re-executed copy of the harness in another process; any difference between two results, or a diagnostic list not ascending by position, is a violation. Inputs are biased to many diagnostics on one line, duplicate keys and ambiguous imports." + EXPL,
            T_ASSUME + "Hash seeds can only be resampled, not chosen: a dependence that shows with probability p per run is missed with (1-p)^7.",
            "DESIGN.md section 4, C11"),
    "C12": ("model-based stateful testing: exhaustive operation sequences over a 27-op alphabet from the empty parser and from all 343 abstract states + random histories up to 40 ops; oracle: fresh parser (new thread) built from the model map after every step",
            "After every single operation of every history the long-lived parser's validate() is compared with a fresh parser holding the surviving (id, content) pairs; failed file loads must change nothing and report an error." + EXPL,
            T_ASSUME + "Only the public API; no fault injection below std::fs.",
            "DESIGN.md section 4, C12"),
    "C13": ("metamorphic testing: generated project + one fact-preserving perturbation of the rest of the project; negative controls that must change the result",
            "The observed file's tree and diagnostics must be identical before and after adding / removing / rewriting other files in ways that keep the imported keys' kinds; controls (kind change, removal of an imported file) must change the result whenever the reference predicts a change, so the check is not vacuous." + EXPL,
            T_ASSUME + "Projects with a key registered under several kinds are excluded.",
            "DESIGN.md section 4, C13"),
    "C14": ("generated items with one injected garbage member (0-8 random tokens + terminator), filtered by the reference recogniser to the property's domain; oracle: siblings before/after unchanged, errors inside the member's extent",
            "Tens of thousands of garbage members per run at every member position of interfaces, parcelables and enums; siblings must survive in order and every syntax error must lie inside the injected member." + EXPL,
            T_ASSUME,
            "DESIGN.md section 4, C14"),
    "C15": ("validated trees of generated documents; reference traversal (independent walker) vs walk_symbols / filter_symbols / find_symbol for all k-th / kind / name predicates at 3 levels, walk_types / walk_methods / walk_args",
            "For every tree the complete visiting sequence and the result of every predicate of the three families named in the property are compared with an independently written reference traversal." + EXPL,
            T_ASSUME,
            "DESIGN.md section 4, C15"),
    "C16": ("generated documents x every (line, column) position x 3 filter levels + the source position of every name (offset -> line/column oracle); oracle: first symbol of the reference traversal whose name range contains the position",
            "Every character position (and positions past line ends / past the last line) of every generated document is looked up at all three levels and compared by identity with the reference answer." + EXPL,
            T_ASSUME,
            "DESIGN.md section 4, C16"),
    "C17": ("generated multi-file projects; oracle: qualified names computed from the model + reference resolution, compared with Symbol::get_qualified_name / get_name / Aidl::get_key",
            "For every symbol of every file the names are compared with the statement's formats, and every cross-file reference's qualified name with that of the item it resolves to." + EXPL,
            T_ASSUME,
            "DESIGN.md section 4, C17"),
    "C18": ("generated doc-comment models (paragraphs / lines / @tags, ASCII / accented / CJK / emoji) in five decoration styles x five placement situations on every documentable construct; oracle: normalised text computed from the model",
            "Every documentable construct of every generated document gets a situation; the doc of every construct (including those that must have none) is compared with the expected string." + EXPL,
            T_ASSUME + "Nothing is asserted outside the comment / whitespace domain stated in the property's quantifier.",
            "DESIGN.md section 4, C18"),
    "C19": ("round trip: ron::to_string / to_string_pretty -> ron::from_str on every parse-stage and validated tree of generated projects and documents; oracle: equality with the original",
            "Thousands of trees per run with all optional fields present and absent are serialised and read back; any inequality or RON error is a violation." + EXPL,
            T_ASSUME + "RON 0.7.1 is trusted as the self-describing format (serde_json is run alongside).",
            "DESIGN.md section 4, C19"),
    "C20": ("error points = every prefix of generated documents + EOF / one vocabulary token, and token-mutated documents; oracle: message items vs the expectation vector recorded by the verif-hooks recorder",
            "Tens of thousands of error points per run; each message must name exactly the recorded expectation multiset. The known truncation (entry n-2 dropped, KF-C20-1) is counted and reported as KNOWN-FINDING; any other discrepancy is a violation." + EXPL,
            T_ASSUME + "Needs the verif-hooks recorder; expectation sets of LR states no generated error point reaches are unseen (the evidence reports the distinct vectors reached).",
            "DESIGN.md section 4, C20"),
}

PENDING_REASON = "check not built yet in this revision (planned: see DESIGN.md section 4); property-based testing applies"

ALL = ["C%02d" % i for i in range(1, 21)]

def main():
    hooks_commits = subprocess.run(["git", "-C", "/repo", "log", "--format=%H %s"], capture_output=True, text=True).stdout.splitlines()
    hook_shas = [l.split()[0] for l in hooks_commits if "verif-hooks" in l]
    m = {
        "version": 1,
        "setup_cmd": "./setup.sh",
        "hooks": {
            "guard": "cargo feature verif-hooks (off by default)",
            "enable": "the harness crate depends on aidl-parser = { path = \"/repo\", features = [\"verif-hooks\"] }; every check runs `cargo build --release --offline` in /verif/harness first, which rebuilds /repo's working tree",
            "baseline_off_cmd": "cd /repo && cargo test --workspace --no-fail-fast --offline",
            "source_commits": hook_shas,
            "add_only": True,
        },
        "engines": [
            {"name": "vh", "path": "harness", "serves_properties": sorted(CHECKS.keys()),
             "kind_free_text": "Rust harness: proptest-seeded choice-sequence generators, bounded-exhaustive enumerators, reference lexer / Earley grammar / validator / traversal oracles, deterministic shrinking, replay files"},
        ],
        "checks": [],
        "not_applicable": [],
        "notes": "All checks: ./vcheck <ID> <quick|thorough>; replay: ./vcheck <ID> --replay <file>. Exit 0 held, 1 violation, 2 infrastructure/inconclusive. VERIF_SEED selects the seed (default 0xA1D1). Known findings: known_findings.json.",
    }
    for pid in ALL:
        if pid in CHECKS:
            tech, text, note, ref = CHECKS[pid]
            m["checks"].append({
                "property_id": pid,
                "quick_cmd": f"./vcheck {pid} quick",
                "thorough_cmd": f"./vcheck {pid} thorough",
                "evidence_file": f"/verif/evidence/{pid}.json",
                "replay_cmd_template": f"./vcheck {pid} --replay {{path}}",
                "engine": "vh",
                "level_claimed": {"category": "exploration", "text": text, "design_ref": ref},
                "level_note": note,
                "technique": tech,
            })
        else:
            m["not_applicable"].append({"property_id": pid, "reason": PENDING_REASON})
    json.dump(m, open("/verif/MANIFEST.json", "w"), indent=1)
    print("wrote MANIFEST.json with", len(m["checks"]), "checks")

if __name__ == "__main__":
    main()
