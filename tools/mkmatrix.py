#!/usr/bin/env python3
"""Print the markdown tables of DESIGN.md section 8 from the mutant / seed logs."""
import glob, json, os, re
def caught(logs):
    res = {}
    for lg in logs:
        if not os.path.exists(lg):
            continue
        for line in open(lg, errors='replace').read().splitlines():
            m = re.match(r'(C\d+) (CAUGHT|missed|error)', line)
            if m:
                # a later log (re-run with the strengthened harness) overrides an earlier one
                res[m.group(1)] = m.group(2)
    return res
print("| seeded change | property | what it does | needs | caught by (quick tier) |")
print("|---|---|---|---|---|")
for d in sorted(glob.glob('/verif/seeded/*/')):
    sid = os.path.basename(d.rstrip('/'))
    meta = json.load(open(d + 'meta.json'))
    res = caught([f'/tmp/seedlogs/own/{sid}.log', f'/tmp/seedlogs/all/{sid}.log', f'/tmp/seedlogs/rerun/{sid}.log'])
    c = sorted(k for k, v in res.items() if v == 'CAUGHT')
    missed_own = res.get(meta['property']) == 'missed'
    summ = meta.get('summary', '').replace('|', '/').replace('\n', ' ')[:160]
    needs = str(meta.get('needs', '')).replace('|', '/').replace('\n', ' ')[:140]
    print(f"| {sid} | {meta['property']} | {summ} | {needs} | {', '.join(c) if c else 'none'}{' (own check MISSED)' if missed_own else ''} |")
print()
print("| hand-written mutant | aimed at | caught by (quick tier) |")
print("|---|---|---|")
for d in sorted(glob.glob('/verif/tools/mutants/*.diff')):
    n = os.path.basename(d)[:-5]
    tgt = open(d[:-5] + '.target').read().strip()
    res = caught([f'/tmp/mutlogs/own/{n}.log', f'/tmp/mutlogs/all/{n}.log', f'/tmp/mutlogs/rerun/{n}.log'])
    c = sorted(k for k, v in res.items() if v == 'CAUGHT')
    miss = sorted(k for k, v in res.items() if v == 'missed' and k in tgt.split())
    print(f"| {n} | {tgt} | {', '.join(c) if c else 'none'}{' ; missed by ' + ', '.join(miss) if miss else ''} |")
