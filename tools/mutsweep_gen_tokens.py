#!/usr/bin/env python3
"""Language-changing mutants of src/aidl.lalrpop: in every production head an unnamed
terminal is (1) dropped or (2) replaced by another terminal; `","?` is made mandatory or
dropped. Mutants that make the grammar ambiguous do not build (stillborn).
usage: tools/mutsweep_gen_tokens.py <repo> > mutants_tokens.jsonl"""
import json, re, sys, os
repo = sys.argv[1]
f = "src/aidl.lalrpop"
lines = open(os.path.join(repo, f), encoding="utf-8").read().split("\n")
REPL = {'";"': '","', '","': '";"', '"{"': '"("', '"}"': '")"', '"("': '"{"', '")"': '"}"', '"<"': '"("', '">"': '")"',
        '"."': '","', '"["': '"("', '"]"': '")"', '"="': '","',
        "PACKAGE": "IMPORT", "IMPORT": "PACKAGE", "INTERFACE": "ENUM", "ENUM": "PARCELABLE", "PARCELABLE": "INTERFACE",
        "CONST": "ONEWAY", "LIST": "MAP", "MAP": "LIST"}
out = []
in_match = False
for i, l in enumerate(lines):
    st = l.strip()
    if st.startswith("match {"):
        in_match = True
    if in_match:
        if st.startswith("}"):
            in_match = False
        continue
    if st.startswith("//") or st.startswith("use ") or st.startswith("grammar") or not st:
        continue
    # production heads only: lines that contain a capture or end an alternative with =>
    if "=>" in l:
        head = l.split("=>")[0]
    elif re.search(r"<\w+:", l) or re.match(r'^\s*("[^"]+"|[A-Z]+)(\s|$)', l):
        head = l
    else:
        continue
    head = head.split("//")[0]
    if "::" in head or "(&" in head or "let " in head or "=" in head.replace('"="', ""):
        continue
    k = 0
    for m in re.finditer(r'"[^"\s]+"\??|\b[A-Z]{3,}\b', head):
        tok = m.group(0)
        before = head[: m.start()]
        # skip captured terminals (<x:TOK> or <TOK>) and terminals inside a parenthesised capture
        if re.search(r"<(\w+:)?\s*$", before) or before.count("(") > before.count(")"):
            continue
        def add(new_tok, op):
            global k
            new = l[: m.start()] + new_tok + l[m.end():]
            out.append({"id": f"aidlt-{i+1}-{op}-{k}", "file": f, "line": i + 1, "old": l, "new": new, "op": op})
            k += 1
        if tok.endswith("?"):
            add(tok[:-1], "optional->mandatory")
            add("", "drop-optional")
            continue
        add("", "drop-terminal")
        if tok in REPL:
            add(REPL[tok], "replace-terminal")
for m in out:
    print(json.dumps(m))
sys.stderr.write(f"{len(out)} token mutants\n")
