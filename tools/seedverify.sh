#!/bin/bash
# Confirm a seeded change independently: patch applies, suite passes with it, demo fails with it
# and passes without it.   usage: tools/seedverify.sh <seed dir containing patch.diff, demo.rs>
# env MREPO: scratch checkout to use (default /tmp/m1/repo). Never run on /repo.
set -u
sd=$(readlink -f "$1")
repo=${MREPO:-/tmp/m1/repo}
export CARGO_NET_OFFLINE=true
cd "$repo" || exit 2
git checkout -q -- . ; rm -f tests/seed_demo.rs
cp "$sd/demo.rs" tests/seed_demo.rs
clean=$(cargo test --offline --test seed_demo 2>&1 | grep -E "^test result" | head -1)
echo "demo on pristine tree: $clean"
if ! git apply "$sd/patch.diff"; then echo "PATCH DOES NOT APPLY"; rm -f tests/seed_demo.rs; exit 1; fi
with=$(cargo test --offline --test seed_demo 2>&1 | grep -E "^test result|error(\[|:)" | head -2 | tr '\n' ' ')
echo "demo with the change:  $with"
rm -f tests/seed_demo.rs
suite=$(cargo test --workspace --no-fail-fast --offline 2>&1 | grep -E "^test result" | tr '\n' ' ')
echo "suite with the change: $suite"
git checkout -q -- .
