#!/bin/bash
# Run every hand-written mutant (tools/mutants/*.diff) against the checks named in its
# .target file (or all 20 with "all") in a scratch copy. Logs: /tmp/mutlogs/<mode>/<name>.log
set -u
mode=${1:-own}
export MREPO=${MREPO:-/tmp/m2/repo} MHARNESS=${MHARNESS:-/tmp/m2/harness}
mkdir -p /tmp/mutlogs/$mode
for d in /verif/tools/mutants/*.diff; do
    n=$(basename "$d" .diff)
    log=/tmp/mutlogs/$mode/$n.log
    [ -f "$log" ] && continue
    if [ "$mode" = own ]; then
        /verif/tools/seedrun.sh "$d" $(cat "${d%.diff}.target") > "$log" 2>&1
    else
        /verif/tools/seedrun.sh "$d" > "$log" 2>&1
    fi
    echo "done $n: $(grep caught-by "$log")"
done
