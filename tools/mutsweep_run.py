#!/usr/bin/env python3
"""Run the generated single-token mutants (tools/mutsweep_gen.py) through
(1) the library's own test suite and, for those that survive it, (2) the quick checks.

usage: tools/mutsweep_run.py <scratch> <shard> <nshards> <mutants.jsonl> <results.jsonl>
<scratch> is a directory made by tools/mkscratch.sh (scratch/repo, scratch/harness).
Verdicts: stillborn (does not compile), suite (killed by the existing tests),
caught:<ID> (first quick check that reports a VIOLATION), watchdog:<ID> (a check's
60 s watchdog fired: non-termination, reported as exit 2, never as a violation),
survived (all 20 quick checks silent).
Nothing is written to /repo or /verif except the results file given.
"""
import json, os, subprocess, sys, tempfile, shutil, time

scratch, shard, nshards, mfile, rfile = sys.argv[1], int(sys.argv[2]), int(sys.argv[3]), sys.argv[4], sys.argv[5]
repo, harness = f"{scratch}/repo", f"{scratch}/harness"
env = dict(os.environ, CARGO_NET_OFFLINE="true")
ALL = [f"C{i:02d}" for i in range(1, 21)]
ORDER = {
    "src/validation.rs": ["C05", "C06", "C07", "C08", "C09", "C10", "C13", "C17", "C11", "C12", "C14"],
    "src/aidl.lalrpop": ["C04", "C02", "C03", "C14", "C18", "C20", "C10", "C19"],
    "src/ast.rs": ["C02", "C19", "C17", "C15", "C16", "C04"],
    "src/traverse.rs": ["C15", "C16", "C17"],
    "src/symbol.rs": ["C16", "C15", "C17", "C18"],
    "src/parser.rs": ["C12", "C01", "C11", "C13", "C14", "C03", "C20", "C02"],
    "src/diagnostic.rs": ["C04", "C20", "C03", "C14", "C11"],
    "src/javadoc.rs": ["C18", "C02", "C01"],
}


def sh(cmd, cwd, timeout, extra_env=None):
    e = dict(env)
    if extra_env:
        e.update(extra_env)
    try:
        p = subprocess.run(cmd, cwd=cwd, env=e, stdout=subprocess.PIPE, stderr=subprocess.STDOUT, timeout=timeout)
        return p.returncode, p.stdout.decode("utf-8", "replace")
    except subprocess.TimeoutExpired as ex:
        return -9, (ex.stdout or b"").decode("utf-8", "replace")


def done_ids():
    # MUTSWEEP_ALSO: other shards' result files to consult (colon-separated)
    ids = set()
    for f in [rfile] + [x for x in os.environ.get("MUTSWEEP_ALSO", "").split(":") if x]:
        if os.path.exists(f):
            ids |= {json.loads(l)["id"] for l in open(f) if l.strip()}
    return ids


def record(r):
    with open(rfile, "a") as f:
        f.write(json.dumps(r) + "\n")
    print(r["id"], r["verdict"], r.get("detail", "")[:150], flush=True)


def main():
    ms = [json.loads(l) for l in open(mfile)]
    if os.environ.get("MUTSWEEP_REVERSE"):
        ms.reverse()
    for idx, m in enumerate(ms):
        if idx % nshards != shard or m["id"] in done_ids():
            continue
        path = os.path.join(repo, m["file"])
        subprocess.run(["git", "-C", repo, "checkout", "-q", "--", "."], check=True)
        lines = open(path, encoding="utf-8").read().split("\n")
        if lines[m["line"] - 1] != m["old"]:
            record({"id": m["id"], "verdict": "skipped", "detail": "source line differs"})
            continue
        lines[m["line"] - 1] = m["new"]
        open(path, "w", encoding="utf-8").write("\n".join(lines))
        r = {"id": m["id"], "file": m["file"], "line": m["line"], "op": m["op"], "old": m["old"].strip(), "new": m["new"].strip()}
        t0 = time.time()
        try:
            # MUTSWEEP_CHECKS_FIRST: run the quick checks first and the library's suite only for
            # mutants they leave alive (grammar mutants: each build of the generated parser is slow)
            checks_first = bool(os.environ.get("MUTSWEEP_CHECKS_FIRST"))
            if checks_first:
                code, out = 0, "test result"
            else:
                code, out = sh(["cargo", "test", "--offline", "--workspace", "--no-fail-fast"], repo, 420)
            if code == -9:
                r.update(verdict="suite", detail="test suite timed out (non-termination)")
            elif "could not compile" in out or "error[E" in out or "error: " in out and "test result" not in out:
                r.update(verdict="stillborn", detail=next((l for l in out.split("\n") if l.startswith("error")), "")[:200])
            elif code != 0:
                failed = [l for l in out.split("\n") if l.startswith("test ") and "FAILED" in l]
                r.update(verdict="suite", detail=f"{len(failed)} tests fail, e.g. {failed[0] if failed else '?'}")
            else:
                code, out = sh(["cargo", "build", "--release", "--offline"], harness, 900)
                if code != 0:
                    r.update(verdict="stillborn", detail="harness build failed: " + next((l for l in out.split("\n") if l.startswith("error")), "")[:200])
                else:
                    first = [c for c in os.environ.get("MUTSWEEP_ORDER", "").split(",") if c] or ORDER.get(m["file"], [])
                    order = first + [c for c in ALL if c not in first]
                    outdir = tempfile.mkdtemp(prefix="mutsweep.")
                    verdict, detail, silent, errors = "survived", "", [], []
                    for cid in order:
                        code, out = sh(["./target/release/vh", cid, "quick"], harness, 900, {"VERIF_OUT_DIR": outdir})
                        if code == 1 and "VIOLATION" in out:
                            ls = out.split("\n")
                            k = next(i for i, l in enumerate(ls) if l.startswith("VIOLATION"))
                            verdict, detail = f"caught:{cid}", (ls[k + 1] if k + 1 < len(ls) else "")[:300]
                            break
                        elif code == 0:
                            silent.append(cid)
                        else:
                            errors.append(f"{cid}:exit{code}")
                            if "watchdog" in out.lower() or "INCONCLUSIVE" in out:
                                verdict, detail = f"watchdog:{cid}", out.strip().split("\n")[-1][:300]
                                break
                    shutil.rmtree(outdir, ignore_errors=True)
                    r.update(verdict=verdict, detail=detail, silent=silent, errors=errors)
                    if checks_first:
                        r["suite"] = "not run (checks first)"
                        if verdict == "survived":
                            code, out = sh(["cargo", "test", "--offline", "--workspace", "--no-fail-fast"], repo, 900)
                            if code != 0:
                                failed = [l for l in out.split("\n") if l.startswith("test ") and "FAILED" in l]
                                r.update(verdict="suite", detail=f"all quick checks silent; {len(failed)} tests fail, e.g. {failed[0] if failed else '?'}")
                            r["suite"] = "run after the checks"
        finally:
            subprocess.run(["git", "-C", repo, "checkout", "-q", "--", "."], check=True)
        r["secs"] = round(time.time() - t0)
        record(r)


main()
