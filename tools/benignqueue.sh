#!/bin/bash
# Behaviour-preserving changes delivered in /tmp/w4-N/seed/<k>/ : confirm the suite passes with the
# change, then run ALL 20 quick checks; every alarm is a candidate false alarm to analyse.
# Logs: /tmp/benignlogs/B<N>-<k>.log
set -u
export MREPO=${MREPO:-/tmp/m2/repo} MHARNESS=${MHARNESS:-/tmp/m2/harness}
mkdir -p /tmp/benignlogs
for sd in /tmp/w4-*/seed/*/; do
    [ -f "$sd/patch.diff" ] && [ -f "$sd/meta.json" ] || continue
    id=$(echo "$sd" | sed -E 's#/tmp/w4-([0-9]+)/seed/([0-9]+)/#B\1-\2#')
    log=/tmp/benignlogs/$id.log
    [ -f "$log" ] && continue
    (
      cd "$MREPO" && git checkout -q -- . && git apply "$sd/patch.diff" && \
      echo "suite with the change: $(CARGO_NET_OFFLINE=true cargo test --workspace --no-fail-fast --offline 2>&1 | grep -E '^test result' | tr '\n' ' ')"; \
      git checkout -q -- .
    ) > "$log" 2>&1
    /verif/tools/seedrun.sh "$sd/patch.diff" >> "$log" 2>&1
    echo "done $id: $(grep caught-by "$log")"
done
