#!/bin/bash
# Process every delivered seed (/tmp/wt-C*/seed/<k>/) that has no log yet: verify it, then run
# all 20 quick checks against it in the scratch copy.  Logs: /tmp/seedlogs/<ID>-<k>.log
set -u
export MREPO=${MREPO:-/tmp/m1/repo} MHARNESS=${MHARNESS:-/tmp/m1/harness}
mkdir -p /tmp/seedlogs
for sd in /tmp/wt-C*/seed/*/; do
    [ -f "$sd/patch.diff" ] && [ -f "$sd/demo.rs" ] && [ -f "$sd/meta.json" ] || continue
    id=$(echo "$sd" | sed -E 's#/tmp/wt-(C[0-9]+)/seed/([0-9]+)/#\1-\2#')
    log=/tmp/seedlogs/$id.log
    [ -f "$log" ] && continue
    echo "== $id" > "$log"
    /verif/tools/seedverify.sh "$sd" >> "$log" 2>&1
    /verif/tools/seedrun.sh "$sd/patch.diff" >> "$log" 2>&1
    echo "done $id: $(grep caught-by "$log")"
done
