#!/bin/bash
# Process every seed (/verif/seeded/<ID>-<k>/): verify it (suite passes, demo fails with /
# passes without), then run quick checks against it in the scratch copy.
# usage: tools/seedqueue.sh [own|all]   own = only the seed's own property check (default), all = all 20
# Logs: /tmp/seedlogs/<mode>/<ID>-<k>.log
set -u
mode=${1:-own}
export MREPO=${MREPO:-/tmp/m1/repo} MHARNESS=${MHARNESS:-/tmp/m1/harness}
mkdir -p /tmp/seedlogs/$mode /tmp/seedlogs/verify
for sd in ${SEED_GLOB:-/verif/seeded/*/}; do
    [ -f "$sd/patch.diff" ] && [ -f "$sd/demo.rs" ] && [ -f "$sd/meta.json" ] || continue
    id=$(basename "$sd")
    prop=${id%%-*}
    vlog=/tmp/seedlogs/verify/$id.log
    if [ ! -f "$vlog" ]; then /verif/tools/seedverify.sh "$sd" > "$vlog" 2>&1; fi
    log=/tmp/seedlogs/$mode/$id.log
    [ -f "$log" ] && continue
    if [ "$mode" = own ]; then
        /verif/tools/seedrun.sh "$sd/patch.diff" "$prop" > "$log" 2>&1
    else
        /verif/tools/seedrun.sh "$sd/patch.diff" > "$log" 2>&1
    fi
    echo "done $id: $(grep caught-by "$log")"
done
