#!/usr/bin/env python3
"""Lexer mutants: changes to the token definitions in the `match { }` block of
src/aidl.lalrpop - one alternative removed from an alternation, a keyword literal altered,
character classes and repetitions changed.
usage: tools/mutsweep_gen_lexer.py <repo> > mutants_lexer.jsonl"""
import json, re, sys, os
repo = sys.argv[1]
f = "src/aidl.lalrpop"
lines = open(os.path.join(repo, f), encoding="utf-8").read().split("\n")
out = []
start = next(i for i, l in enumerate(lines) if l.startswith("match {"))
end = next(i for i in range(len(lines) - 1, 0, -1) if lines[i].startswith("}"))
CLASS = [("[a-zA-Z_]", "[a-zA-Z]"), ("[a-zA-Z0-9_]*", "[a-zA-Z0-9]*"), ("[a-zA-Z0-9_]*", "[a-zA-Z0-9_]+"), ("[a-zA-Z0-9_]*", "[a-zA-Z_]*"),
         ("[0-9]+", "[1-9]+"), ("[0-9]+", "[0-9]*"), ("[+-]?", "[+]?"), ("[+-]?", "[-]?"), ("[+-]?", ""), ("(\\d*\\.)?", "(\\d+\\.)?"), ("(\\d*\\.)?", ""),
         ("\\d+[f]?", "\\d+"), ("\\d+[f]?", "\\d*[f]?"), ('[^"\\n\\r]*', '[^"\\n]*'), ('[^"\\n\\r]*', '[^"]*'), ('[^"\\n\\r]*', '[^"\\n\\r]+'),
         ("[^\\n\\r]*[\\n\\r]*", "[^\\n]*[\\n\\r]*"), ("[^\\n\\r]*[\\n\\r]*", "[^\\n\\r]*"), ("[^\\n\\r]*[\\n\\r]*", "[^\\n\\r]+[\\n\\r]*"),
         ("\\s*", "[ \\t\\r\\n]*"), ("[^*]*\\*+(?:", "[^*]+\\*+(?:"), ("\\*+)*/", "\\*+)+/"), ("(?:[^/*]", "(?:[^/]")]
for i in range(start, end + 1):
    l = lines[i]
    st = l.strip()
    if st.startswith("//") or "=>" not in l:
        continue
    head = l.split("=>")[0]
    k = 0
    def add(new_head, op):
        global k
        out.append({"id": f"aidll-{i+1}-{op}-{k}", "file": f, "line": i + 1, "old": l, "new": new_head + "=>" + l.split("=>", 1)[1], "op": op})
        k += 1
    m = re.search(r"\(([a-zA-Z|]+)\)", head)
    if m and "|" in m.group(1):
        words = m.group(1).split("|")
        for w in words:
            rest = [x for x in words if x != w]
            add(head[: m.start()] + "(" + "|".join(rest) + ")" + head[m.end():], "drop-alternative")
    m = re.match(r'^(\s*)"([a-zA-Z]+)"(\s*)$', head)
    if m:
        add(f'{m.group(1)}"{m.group(2)}x"{m.group(3)}', "rename-keyword")
        add(f'{m.group(1)}"{m.group(2).lower() if m.group(2) != m.group(2).lower() else m.group(2).capitalize()}"{m.group(3)}', "recase-keyword")
    for a, b in CLASS:
        j = head.find(a)
        if j >= 0:
            add(head[:j] + b + head[j + len(a):], "regex-class")
for m in out:
    print(json.dumps(m))
sys.stderr.write(f"{len(out)} lexer mutants\n")
