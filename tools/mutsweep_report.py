#!/usr/bin/env python3
"""Merge mutation-sweep result shards, apply the hand-written analysis of survivors
(mutsweep/survivors.json: id -> reason why the mutant is equivalent / outside every
property's domain) and print the summary used in DESIGN.md section 8 (d).

usage: tools/mutsweep_report.py [--grammar|--tokens|--lexer] <shard.jsonl>... ; writes mutsweep/results.jsonl
(--grammar: mutants_grammar.jsonl / survivors_grammar.json / results_grammar.jsonl)
"""
import json, sys, collections, os

here = os.path.join(os.path.dirname(os.path.abspath(__file__)), "..", "mutsweep")
sfx = ""
if "--grammar" in sys.argv:
    sys.argv.remove("--grammar")
    sfx = "_grammar"
if "--tokens" in sys.argv:
    sys.argv.remove("--tokens")
    sfx = "_tokens"
if "--lexer" in sys.argv:
    sys.argv.remove("--lexer")
    sfx = "_lexer"
MUT, NOTES, RES = f"mutants{sfx}.jsonl", f"survivors{sfx}.json", f"results{sfx}.jsonl"
valid = {json.loads(l)["id"] for l in open(os.path.join(here, MUT))}
notes = json.load(open(os.path.join(here, NOTES))) if os.path.exists(os.path.join(here, NOTES)) else {}
rs = {}
for f in sys.argv[1:]:
    for l in open(f):
        r = json.loads(l)
        if r["id"] in valid:
            rs[r["id"]] = r
order = [json.loads(l)["id"] for l in open(os.path.join(here, MUT))]
with open(os.path.join(here, RES), "w") as out:
    for i in order:
        if i in rs:
            r = rs[i]
            if r["verdict"] == "survived" and i in notes:
                r["analysis"] = notes[i]
            out.write(json.dumps(r) + "\n")
c = collections.Counter(r["verdict"].split(":")[0] for r in rs.values())
print(f"mutants generated: {len(valid)}; run: {len(rs)}")
for k in ("stillborn", "suite", "caught", "watchdog", "survived", "skipped"):
    print(f"  {k}: {c.get(k, 0)}")
by = collections.Counter(r["verdict"] for r in rs.values() if r["verdict"].startswith("caught"))
print("  first catching check:", ", ".join(f"{k.split(':')[1]} {v}" for k, v in sorted(by.items())))
unexplained = [i for i, r in rs.items() if r["verdict"] == "survived" and i not in notes]
print(f"  survivors analysed: {sum(1 for i, r in rs.items() if r['verdict'] == 'survived' and i in notes)}; not analysed: {len(unexplained)}")
for i in unexplained:
    print("   UNEXPLAINED", i, "|", rs[i]["old"][:80], "=>", rs[i]["new"][:80])
pf = collections.defaultdict(collections.Counter)
for r in rs.values():
    pf[r.get("file", "?")][r["verdict"].split(":")[0]] += 1
print("\n| file | stillborn | killed by the suite | caught by a quick check | watchdog | survived |")
print("|---|---|---|---|---|---|")
for f in sorted(pf):
    x = pf[f]
    print(f"| {f} | {x['stillborn']} | {x['suite']} | {x['caught']} | {x['watchdog']} | {x['survived']} |")
