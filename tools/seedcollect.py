#!/usr/bin/env python3
"""Copy every confirmed seeded change from the sub-agents' scratch worktrees into
/verif/seeded/<ID>-<k>/ (patch.diff, demo.rs, meta.json). A change is kept only when our own
confirmation (tools/seedverify.sh) showed: demo passes on the pristine tree, demo fails with the
change, the complete suite passes with the change. meta.json = the agent's description plus what
we ran and which of our checks caught it."""
import glob, json, os, re, shutil, sys
kept = 0
for sd in sorted(glob.glob('/tmp/wt-C*/seed/*/') + glob.glob('/tmp/w2-C*/seed/*/') + glob.glob('/tmp/w3-*/seed/*/') + glob.glob('/tmp/w5-*/seed/*/') + glob.glob('/tmp/w6-*/seed/*/') + glob.glob('/tmp/w7-*/seed/*/')):
    m3 = re.match(r'/tmp/w(3|5|6|7)-(\d+)/seed/(\d+)/', sd)
    if m3:
        try:
            prop3 = json.load(open(sd + 'meta.json')).get('property', 'C01')
        except Exception:
            prop3 = 'C01'
        class M:  # same interface as the regex match below
            def group(self, i):
                return {1: 'w' + m3.group(1), 2: prop3, 3: m3.group(3)}[i]
        m = M()
        sid = f"R{ {'3': 3, '5': 4, '6': 5, '7': 6}[m3.group(1)] }-{m3.group(2)}-{m3.group(3)}"
    else:
        m = re.match(r'/tmp/(wt|w2)-(C\d+)/seed/(\d+)/', sd)
        k = int(m.group(3)) + (2 if m.group(1) == 'w2' else 0)
        sid = f"{m.group(2)}-{k}"
    vlog = f"/tmp/seedlogs/verify/{sid}.log"
    if not os.path.exists(vlog):
        continue
    v = open(vlog, errors='replace').read()
    pristine_ok = re.search(r'demo on pristine tree: test result: ok', v) is not None
    with_fails = any('test result: FAILED' in l for l in v.splitlines() if l.startswith('demo with the change:'))
    suite = re.findall(r'test result: ok\. (\d+) passed; 0 failed', v.split('suite with the change:')[-1])
    suite_ok = suite == ['72', '2', '2']
    if not (pristine_ok and with_fails and suite_ok):
        print(sid, 'NOT CONFIRMED', pristine_ok, with_fails, suite)
        continue
    caught = {}
    for mode in ('own', 'all', 'rerun'):
        lg = f"/tmp/seedlogs/{mode}/{sid}.log"
        if os.path.exists(lg):
            t = open(lg, errors='replace').read()
            for line in t.splitlines():
                mm = re.match(r'(C\d+) (CAUGHT|missed|error)(.*)', line)
                if mm:
                    caught[mm.group(1)] = (mm.group(2), mm.group(3).strip(': ')[:200])
    out = f"/verif/seeded/{sid}"
    os.makedirs(out, exist_ok=True)
    shutil.copy(sd + 'patch.diff', out + '/patch.diff')
    shutil.copy(sd + 'demo.rs', out + '/demo.rs')
    try:
        meta = json.load(open(sd + 'meta.json'))
    except Exception as e:
        meta = {"property": m.group(2), "summary": "(agent meta.json unreadable)"}
    meta['property'] = m.group(2)
    meta['round'] = {'w2': 2, 'w3': 3, 'w5': 4, 'w6': 5, 'w7': 6}.get(m.group(1), 1)
    meta['confirmed_by_us'] = {
        "how": "tools/seedverify.sh in a scratch clone of /repo: demo.rs copied to tests/seed_demo.rs, run with and without patch.diff; then the complete suite with the patch",
        "demo_on_pristine_tree": "passes",
        "demo_with_change": "fails",
        "suite_with_change": "72 + 2 + 2 pass",
    }
    meta['our_checks_quick'] = {k: {"result": v[0], "first_message": v[1]} for k, v in sorted(caught.items())}
    meta['caught_by'] = sorted(k for k, v in caught.items() if v[0] == 'CAUGHT')
    json.dump(meta, open(out + '/meta.json', 'w'), indent=1, ensure_ascii=False)
    kept += 1
print('kept', kept)
