#!/bin/bash
# Sixth-round seeds delivered in /tmp/w7-N/seed/<k>/ : id R6-N-k, aimed-at property from meta.json.
set -u
export MREPO=${MREPO:-/tmp/m2/repo} MHARNESS=${MHARNESS:-/tmp/m2/harness}
mkdir -p /tmp/seedlogs/own /tmp/seedlogs/verify
for sd in /tmp/w7-${WSEL:-*}/seed/*/; do
    [ -f "$sd/patch.diff" ] && [ -f "$sd/demo.rs" ] && [ -f "$sd/meta.json" ] || continue
    id=$(echo "$sd" | sed -E 's#/tmp/w7-([0-9]+)/seed/([0-9]+)/#R6-\1-\2#')
    props=$(python3 -c "
import json,sys,re
m=json.load(open('$sd/meta.json'))
ids=[m.get('property','')]+list(m.get('also_breaks',[]) or [])
ids=[i for i in ids if re.fullmatch(r'C\d\d', str(i))]
print(' '.join(dict.fromkeys(ids)))" 2>/dev/null)
    [ -n "$props" ] || props="C01"
    vlog=/tmp/seedlogs/verify/$id.log
    if [ ! -f "$vlog" ]; then /verif/tools/seedverify.sh "$sd" > "$vlog" 2>&1; fi
    log=/tmp/seedlogs/own/$id.log
    [ -f "$log" ] && continue
    /verif/tools/seedrun.sh "$sd/patch.diff" $props > "$log" 2>&1
    echo "done $id ($props): $(grep caught-by "$log")"
done
