#!/bin/bash
# Run every quick check with several seeds on the current tree; everything must stay silent.
# usage: tools/silence.sh [seed ...]   (default: 1 2 3 7 12345)
# Evidence of these runs goes to a scratch directory.
seeds=("$@"); [ ${#seeds[@]} -eq 0 ] && seeds=(1 2 3 7 12345)
out=$(mktemp -d /tmp/silence.XXXXXX); trap 'rm -rf "$out"' EXIT
bad=0
for s in "${seeds[@]}"; do
    for i in $(seq -f "C%02g" 1 20); do
        r=$(VERIF_OUT_DIR="$out" VERIF_SEED=$s /verif/vcheck $i quick 2>&1); c=$?
        if [ $c -ne 0 ]; then echo "seed $s $i exit $c: $(echo "$r" | grep -E 'VIOLATION|HARNESS|INCONCL|CRASH' -A1 | head -3 | tr '\n' ' ' | cut -c1-300)"; bad=1; fi
    done
    echo "seed $s done"
done
exit $bad
