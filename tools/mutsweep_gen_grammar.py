#!/usr/bin/env python3
"""Grammar-level mutants of src/aidl.lalrpop (type-preserving, so they compile):
(1) in every `Range::new(lookup, a, b)`: the symbol/full captures exchanged (sp1<->fp1,
sp2<->fp2) and the range collapsed to its start or its end; (2) `*` <-> `+` repetitions;
(3) position captures `@L` <-> `@R`.  Same output format as mutsweep_gen.py.
usage: tools/mutsweep_gen_grammar.py <repo> > mutants.jsonl"""
import json, re, sys, os
repo = sys.argv[1]
f = "src/aidl.lalrpop"
lines = open(os.path.join(repo, f), encoding="utf-8").read().split("\n")
out = []
def add(i, new, op, k=0):
    if new != lines[i]:
        out.append({"id": f"aidlg-{i+1}-{op}-{k}", "file": f, "line": i + 1, "old": lines[i], "new": new, "op": op})
SWAP = {"sp1": "fp1", "fp1": "sp1", "sp2": "fp2", "fp2": "sp2"}
rx = re.compile(r"Range::new\((&?lookup), (\w+), (\w+)\)")
for i, l in enumerate(lines):
    m = rx.search(l)
    if m and not l.strip().startswith("//"):
        lk, a, b = m.groups()
        def rep(x, y):
            return l[: m.start()] + f"Range::new({lk}, {x}, {y})" + l[m.end():]
        if a in SWAP:
            add(i, rep(SWAP[a], b), "swap-start")
        if b in SWAP:
            add(i, rep(a, SWAP[b]), "swap-end")
        add(i, rep(a, a), "collapse-to-start")
        add(i, rep(b, b), "collapse-to-end")
for i, l in enumerate(lines):
    if l.strip().startswith("//") or "=>" not in l and "<" not in l:
        continue
    head = l.split("=>")[0]
    for k, m in enumerate(re.finditer(r"\*>", head)):
        add(i, l[: m.start()] + "+>" + l[m.end():], "star->plus", k)
    for k, m in enumerate(re.finditer(r"\)\+>", head)):
        add(i, l[: m.start()] + ")*>" + l[m.end():], "plus->star", k)
for i, l in enumerate(lines):
    if l.strip().startswith("//"):
        continue
    head = l.split("=>")[0]
    for k, m in enumerate(re.finditer(r"@L", head)):
        add(i, l[: m.start()] + "@R" + l[m.end():], "L->R", k)
    for k, m in enumerate(re.finditer(r"@R", head)):
        add(i, l[: m.start()] + "@L" + l[m.end():], "R->L", k)
PRIO = {"swap-start": 0, "swap-end": 0, "star->plus": 1, "plus->star": 1, "collapse-to-start": 2, "collapse-to-end": 2, "L->R": 3, "R->L": 3}
out.sort(key=lambda m: (PRIO[m["op"]], m["line"]))
for m in out:
    print(json.dumps(m))
sys.stderr.write(f"{len(out)} grammar mutants\n")
