#!/usr/bin/env python3
"""Print DESIGN section 8 table rows for the seeded changes whose id starts with the given
prefix, from the meta.json files alone (the per-run logs under /tmp are not kept).
usage: tools/seedrows.py R6-"""
import glob, json, os, sys
pre = sys.argv[1]
for d in sorted(glob.glob(f'/verif/seeded/{pre}*/')):
    sid = os.path.basename(d.rstrip('/'))
    meta = json.load(open(d + 'meta.json'))
    c = meta.get('caught_by', [])
    own = meta.get('our_checks_quick', {}).get(meta['property'], {}).get('result')
    summ = meta.get('summary', '').replace('|', '/').replace('\n', ' ')[:160]
    needs = str(meta.get('needs', '')).replace('|', '/').replace('\n', ' ')[:140]
    print(f"| {sid} | {meta['property']} | {summ} | {needs} | {', '.join(c) if c else 'none'}{' (own check MISSED)' if own == 'missed' else ''} |")
